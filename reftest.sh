#!/bin/bash
# ./reftest.sh <name> <patch> [tier]  - applies a behaviour-preserving refactor to /repo and runs every check: none may fire
name=$1; patch=$2; tier=${3:-quick}
dest=/verif/seeded/refactors/$name; mkdir -p $dest; [ "$patch" -ef "$dest/$(basename $patch)" ] || cp $patch $dest/patch.diff; applied=$dest/$(basename $patch)
cd /repo && git apply --check $applied || { echo "PATCH DOES NOT APPLY"; exit 3; }
git apply $applied
suite=$(cargo test --offline 2>&1 | grep -E "^test result" | awk '{p+=$4; f+=$6} END {print p" passed "f" failed"}')
fired=""
cd /verif
for c in C01 C02 C03 C04 C05 C06 C07 C08 C09 C10 C11 C12 C13 C14 C15 C16 C17; do
  o=$(./check $c $tier 2>&1); rc=$?
  if [ $rc -ne 0 ]; then fired="$fired $c(rc=$rc)"; echo "$o" | grep -E "VIOLATION|machinery|error" | head -3 | cut -c1-500 > $dest/alarm_$c.txt; fi
done
git -C /repo checkout -- .
git -C /verif checkout -q -- evidence  # evidence written while the patch was applied is not evidence about /repo
echo "$name: suite: $suite ; checks that raised an alarm ($tier):${fired:- none}"
python3 - "$name" "$suite" "$fired" "$tier" <<'PY'
import json,sys
name,suite,fired,tier=sys.argv[1:5]
json.dump({"name":name,"kind":"behaviour-preserving refactor","suite_with_change":suite,"tier":tier,"checks_that_raised_an_alarm":fired.split()},open(f"/verif/seeded/refactors/{name}/meta_{tier}.json","w"),indent=1)
PY
