#!/usr/bin/env python3
"""Prints the tables of DESIGN.md section 8 from /verif/seeded/*/meta.json.
   mkseedtable.py compact  -> seed | breaks | checks that fire | own   (for DESIGN.md)
   mkseedtable.py full     -> the same with the one-line description   (for seeded/TABLE.md)
   mkseedtable.py refactors-> the refactor probe table"""
import json,glob,os,sys
mode=sys.argv[1] if len(sys.argv)>1 else 'compact'
desc=json.load(open('/verif/seeded/descriptions.json'))
if mode=='refactors':
    print("| refactor | suite with the change | quick: checks that raised an alarm | thorough: checks that raised an alarm |")
    print("|---|---|---|---|")
    for d in sorted(glob.glob('/verif/seeded/refactors/*/')):
        n=os.path.basename(d.rstrip('/'))
        q=json.load(open(d+'meta_quick.json')) if os.path.exists(d+'meta_quick.json') else {}
        t=json.load(open(d+'meta_thorough.json')) if os.path.exists(d+'meta_thorough.json') else {}
        f=lambda m: (' '.join(m.get('checks_that_raised_an_alarm',[])) or 'none') if m else 'not run'
        print(f"| {n} | {q.get('suite_with_change','?')} | {f(q)} | {f(t)} |")
    sys.exit(0)
rows=[]; uncaught=[]; own_no=[]
letters='abcdefghijklm'
per_round={}
for d in sorted(glob.glob('/verif/seeded/C*/')):
    name=os.path.basename(d.rstrip('/'))
    try: m=json.load(open(d+'meta.json'))
    except Exception: continue
    fired=[c for c in m.get('quick_checks_that_fire',[])]
    own='yes' if m.get('target_detected') else 'NO'
    r=letters.index(name[-1])+1
    pr=per_round.setdefault(r,[0,0,0]); pr[0]+=1; pr[1]+= 1 if fired else 0; pr[2]+= 1 if own=='yes' else 0
    if not fired: uncaught.append(name)
    elif own=='NO': own_no.append(f"{name} ({' '.join(fired)})")
    what=desc.get(name,'')
    if mode=='full':
        rows.append(f"| {name} | {m['property_broken']} | {what} | {' '.join(fired) or '-'} | {own} |")
    else:
        rows.append(f"| {name} | {' '.join(fired) or '-'} | {own} |")
if mode=='full':
    print("| seed | breaks | change | quick checks that fire | own check fires |")
    print("|---|---|---|---|---|")
else:
    print("| seed (property-round) | quick checks that fire | own check fires |")
    print("|---|---|---|")
print('\n'.join(rows))
print()
print("| round | seeds | caught by some check | caught by the property's own check |")
print("|---|---|---|---|")
for r in sorted(per_round):
    a,b,c=per_round[r]; print(f"| {r} | {a} | {b} | {c} |")
print()
print("**Not caught by any quick check:** "+(', '.join(uncaught) or 'none')+".")
print()
print("**Caught, but not by the property's own check** (the checks that do fire in brackets): "+('; '.join(own_no) or 'none')+".")
