#!/usr/bin/env python3
"""Prints the markdown table of DESIGN.md section 8 from /verif/seeded/*/meta.json."""
import json,glob,os,re
rows=[]
desc=json.load(open('/verif/seeded/descriptions.json'))
for d in sorted(glob.glob('/verif/seeded/*/')):
    name=os.path.basename(d.rstrip('/'))
    try: m=json.load(open(d+'meta.json'))
    except Exception: continue
    what=''
    p=d+'agent_meta.md'
    if os.path.exists(p):
        t=open(p).read()
        # first non-heading paragraph
        for para in re.split(r'\n\s*\n',t):
            para=para.strip()
            if para and not para.startswith('#'):
                what=' '.join(para.split())[:230]; break
    if name in desc: what=desc[name]
    fired=' '.join(m.get('quick_checks_that_fire',[])) or '-'
    rows.append(f"| {name} | {m['property_broken']} | {what} | {fired} | {'yes' if m.get('target_detected') else 'NO'} |")
print("| seed | breaks | change (from the author's notes) | quick checks that fire | own check fires |")
print("|---|---|---|---|---|")
print('\n'.join(rows))
