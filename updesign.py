#!/usr/bin/env python3
"""Replaces the seed tables of DESIGN.md section 8 by the current output of mkseedtable.py compact, and rewrites seeded/TABLE.md."""
import subprocess,re
out=subprocess.run(["python3","/verif/mkseedtable.py","compact"],capture_output=True,text=True).stdout
s=open('/verif/DESIGN.md').read()
a=s.index("| seed (property-round) | quick checks that fire | own check fires |")
b=s.index("### 8.1 The other direction")
s=s[:a]+out.rstrip("\n")+"\n\n"+s[b:]
open('/verif/DESIGN.md','w').write(s)
full=subprocess.run(["python3","/verif/mkseedtable.py","full"],capture_output=True,text=True).stdout
open('/verif/seeded/TABLE.md','w').write(full)
