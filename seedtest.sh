#!/bin/bash
# ./seedtest.sh <name> <property> <worktree> <outdir>   - confirms a seeded change and runs every quick check against it
# 1. in the scratch worktree: suite passes with the change, demo fails with it and passes without
# 2. applies patch to /repo, runs all quick checks, records which fire, reverts /repo
set -u
name=$1; prop=$2; wt=$3; out=$4
export CARGO_NET_OFFLINE=true
dest=/verif/seeded/$name
mkdir -p $dest
if [ -f $out/patch.diff ]; then
cp $out/patch.diff $dest/patch.diff
cp $out/demo.rs $dest/demo.rs 2>/dev/null
cp $out/meta.md $dest/agent_meta.md 2>/dev/null
fi
feat=""
grep -qiE "features? (core|json)|--features" $out/meta.md 2>/dev/null && feat="--features core,json"
grep -qE -- "--features ignore_case (--test|.*demo)|[Dd]emo needs:? .--features ignore_case" $out/meta.md 2>/dev/null && feat="--features ignore_case"
grep -qE -- "[Dd]emo needs:? .--features sync" $out/meta.md 2>/dev/null && feat="--features sync"
if [ "${SEED_CHECKS_ONLY:-0}" = "1" ] && [ -f $dest/meta.json ]; then
  suite=$(python3 -c "import json;print(json.load(open('$dest/meta.json'))['suite_with_change'])")
  with=$(python3 -c "import json;print(json.load(open('$dest/meta.json'))['demo_with_change'])")
  without=$(python3 -c "import json;print(json.load(open('$dest/meta.json'))['demo_without_change'])")
else
cd $wt || exit 2
# known state: HEAD + the delivered patch (git stash is shared between worktrees, never use it)
git checkout -q -- src
git checkout -q --detach $(git -C /repo rev-parse HEAD)
git apply $out/patch.diff || { echo "PATCH DOES NOT APPLY IN WORKTREE"; exit 3; }
demo=$(ls tests/demo_*.rs 2>/dev/null | head -1)
[ -z "$demo" ] && { cp $out/demo.rs tests/demo_$prop.rs; demo=tests/demo_$prop.rs; }
dn=$(basename $demo .rs)
export CARGO_TARGET_DIR=/tmp/wt-target/$name
# suite with the change (demo moved away)
mv $demo /tmp/$dn.rs.hold
suite=$(cargo test --offline 2>&1 | grep -E "^test result" | awk '{p+=$4; f+=$6} END {print p" passed "f" failed"}')
mv /tmp/$dn.rs.hold $demo
with=$(cargo test --offline $feat --test $dn 2>&1 | grep -E "^test result" | tail -1)
git apply -R $out/patch.diff
without=$(cargo test --offline $feat --test $dn 2>&1 | grep -E "^test result" | tail -1)
git apply $out/patch.diff
rm -rf /tmp/wt-target/$name
unset CARGO_TARGET_DIR
fi
echo "suite_with_change: $suite"
echo "demo_with_change: $with"
echo "demo_without_change: $without"
# apply to /repo and run the checks
cd /repo
if ! git apply --check $dest/patch.diff 2>/dev/null; then echo "PATCH DOES NOT APPLY"; exit 3; fi
git apply $dest/patch.diff
fired=""
cd /verif
rm -f $dest/violation_C*.txt $dest/machinery_C*.txt
if [ "${SEED_PARALLEL:-0}" = "1" ]; then
  # build once (both binaries), then run the 17 quick checks side by side
  ./check --setup >/dev/null 2>$dest/.build.err || true
  tmpd=$(mktemp -d)
  for c in C01 C02 C03 C04 C05 C06 C07 C08 C09 C10 C11 C12 C13 C14 C15 C16 C17; do
    ( ./check $c quick >$tmpd/$c.out 2>&1; echo $? >$tmpd/$c.rc ) &
  done
  wait
  for c in C01 C02 C03 C04 C05 C06 C07 C08 C09 C10 C11 C12 C13 C14 C15 C16 C17; do
    rc=$(cat $tmpd/$c.rc); o=$(cat $tmpd/$c.out)
    if [ $rc -eq 1 ]; then fired="$fired $c"; echo "$o" | grep VIOLATION | head -2 | cut -c1-400 > $dest/violation_$c.txt; fi
    if [ $rc -ge 2 ]; then fired="$fired $c(machinery:$rc)"; echo "$o" | tail -5 > $dest/machinery_$c.txt; fi
  done
  rm -rf $tmpd $dest/.build.err
else
for c in C01 C02 C03 C04 C05 C06 C07 C08 C09 C10 C11 C12 C13 C14 C15 C16 C17; do
  o=$(./check $c quick 2>&1); rc=$?
  if [ $rc -eq 1 ]; then fired="$fired $c"; echo "$o" | grep VIOLATION | head -2 | cut -c1-400 > $dest/violation_$c.txt; fi
  if [ $rc -ge 2 ]; then fired="$fired $c(machinery:$rc)"; echo "$o" | tail -5 > $dest/machinery_$c.txt; fi
done
fi
git -C /repo checkout -- .
git -C /verif checkout -q -- evidence  # evidence written while the seed was applied is not evidence about /repo
echo "checks_fired:$fired"
python3 - "$name" "$prop" "$suite" "$with" "$without" "$fired" <<'PY'
import json,sys
name,prop,suite,w,wo,fired=sys.argv[1:7]
json.dump({"name":name,"property_broken":prop,"suite_with_change":suite,"demo_with_change":w,"demo_without_change":wo,
 "quick_checks_that_fire":fired.split(),"target_detected":prop in fired.split(),
 "what_ran":"cargo test --offline in a scratch worktree with the change (suite), the demo with and without it; then git -C /repo apply patch.diff, ./check <every id> quick, git -C /repo checkout -- ."},
 open(f"/verif/seeded/{name}/meta.json","w"),indent=1)
PY
