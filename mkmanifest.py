#!/usr/bin/env python3
"""Regenerates MANIFEST.json from the table below (single source of truth for the interface)."""
import json, subprocess
ALL = ["C%02d" % i for i in range(1, 18)]
CHECKS = {
 "C01": dict(
   text="Bounded-exhaustive differential model checking on the real code: every rule of the bounded universe x 16 switch sets x every hash iteration order of every optimiser-local map (stateless DFS over cfg-guarded choice points) x the full product of per-field document alphabets; optimised verdict must equal unoptimised verdict, optimise/matches must not panic. Violations are localised to pass@site:kind signatures so that recorded defects do not mask new ones.",
   note="Bounds: universe sizes in evidence; trusted: regex, aho-corasick, serde_yaml; PermMap over-approximates std HashMap orders; replica of Rule::optimise is conformance-checked against Rule::optimise on every rule x switch set.",
   technique="stateless explicit-state exploration of hash-order choice points + exhaustive input enumeration (differential oracle)",
   ref="5/C01"),
}
NA_REASON = "check not built yet in this phase (see DESIGN.md section 10 build order)"
def main():
    hooks = subprocess.run(["git","-C","/repo","log","--format=%H %s"],capture_output=True,text=True).stdout.splitlines()
    hook_commits=[l.split()[0] for l in hooks if l.split(' ',1)[1].startswith("verif hook")]
    m = {
      "version": 1,
      "setup_cmd": "./check --setup",
      "hooks": {
        "guard": "cargo feature `verif` of tau-engine",
        "enable": "harness depends on tau-engine by path (/repo) with features core,json,verif",
        "baseline_off_cmd": "cd /repo && cargo test --workspace --no-fail-fast --offline",
        "source_commits": hook_commits,
        "add_only": True,
      },
      "engines": [{"name":"tv","path":"/verif/harness","serves_properties":sorted(CHECKS),"kind_free_text":"Rust harness: stateless choice-point explorer (hash orders, adversarial document answers), exhaustive input enumerators, reference interpreter, shuttle DFS scheduler for callback-granularity interleavings"}],
      "checks": [],
      "not_applicable": [{"property_id":p,"reason":NA_REASON} for p in ALL if p not in CHECKS],
      "notes": "exit 2 of ./check is a machinery failure, never a verdict. known_findings.json lists recorded genuine defects by (property, signature).",
    }
    for p in sorted(CHECKS):
        c=CHECKS[p]
        m["checks"].append({
          "property_id": p,
          "quick_cmd": "./check %s quick" % p,
          "thorough_cmd": "./check %s thorough" % p,
          "evidence_file": "/verif/evidence/%s.json" % p,
          "replay_cmd_template": "./check --replay {path}",
          "engine": "tv",
          "level_claimed": {"category":"model_checking","text":c["text"],"design_ref":c["ref"]},
          "level_note": c["note"],
          "technique": c["technique"],
        })
    json.dump(m, open("/verif/MANIFEST.json","w"), indent=1)
main()
