#!/usr/bin/env python3
"""Regenerates MANIFEST.json from the table below (single source of truth for the interface)."""
import json, subprocess
ALL = ["C%02d" % i for i in range(1, 18)]
CHECKS = {
 "C01": dict(
   text="Bounded-exhaustive differential model checking on the real code: every rule of the bounded universe x 16 switch sets x every iteration order of every hooked optimiser-local map (stateless DFS over cfg-guarded choice points) x the full product of per-field document alphabets; the optimised verdict must equal the unoptimised one and optimise/matches must not panic. Violations are localised to pass@site:kind signatures so that the recorded defects do not mask new ones. Additionally the four passes are applied by hand through core::optimiser in every order of every subset with coalesce first or absent (order-specific verdict changes only), and core::solve / core::solve_expression / solve must agree with Rule::matches. A wide-matrix family (or-groups of 64..300, 2048 and 55296 distinct fields in three row shapes, boundary columns around 128 / 2048 / 0xD800 where the one-char column key changes its UTF-8 length or stops existing) is evaluated as loaded and under every switch set with the matrix pass against the verdict known by construction.",
   note="Bounds: universe sizes in the evidence; trusted: regex, aho-corasick, serde_yaml; PermMap over-approximates std HashMap orders; the pass-by-pass replica of Rule::optimise is conformance-checked against Rule::optimise on every rule x switch set.",
   technique="stateless explicit-state exploration of hash-order choice points + exhaustive input enumeration, differential oracle",
   ref="5/C01"),
 "C02": dict(
   text="Every loadable rule of the bounded universe x the full document product is one model trace: a set-valued reference interpreter of the rule language (own condition parser, pattern parser, path resolver and regex matcher, working from the YAML text) predicts the admissible three-valued results and the engine must refine it; all traces are replayed on the implementation.",
   note="Where the documentation is silent the reference is multi-valued (DESIGN 4.2); serde_yaml parses the text for both sides; the reference itself is trusted (kept boring, exercised on 10^6..10^8 cases).",
   technique="bounded-exhaustive enumeration of (rule, document) against a reference model; every model trace replayed on the implementation",
   ref="5/C02"),
 "C03": dict(
   text="All token strings up to a length bound as conditions; every loaded rule (and the shared universe) x 16 switch sets x an adversarial Document whose every find() answer is an explorer choice point over a value-kind alphabet, explored exhaustively up to a deviation bound; oracle: no panic in optimise/matches/validate and the structural invariant (operands of and/or/not are predicates, identifiers exist).",
   note="Answers of nested objects are fixed trees; deviation bound 2 (quick) / 3 (thorough); depth > 64 out of scope.",
   technique="deviation-bounded stateless exploration of environment (Document) answers + exhaustive enumeration of condition token strings",
   ref="5/C03"),
 "C04": dict(
   text="Every string up to a length bound over adversarial alphabets through each textual layer on its own (pattern parser, tokeniser, mapping-key parser) and through the loader; every node position of a skeleton rule x a 42-shape YAML alphabet (pairs of positions in thorough); every node position x seven shapes carrying a long multi-byte payload (2-, 3-, 4-byte characters behind 0-3 ASCII characters, lengths on both sides of 256 / 1024 / 4096 bytes); depth-64 cases in child processes; oracle: returns Ok or Err, no panic/abort, returns within 10 s (watchdog).",
   note="serde_yaml itself trusted; nesting beyond 64 out of scope; longer strings outside the bound not covered.",
   technique="bounded-exhaustive input enumeration on the real code with panic/abort/hang oracle",
   ref="5/C04"),
 "C05": dict(
   text="Every condition tree up to N leaves (all shapes x and/or x not placements x leaf kinds x keyword-prefixed names), printed bare, fully parenthesised, with each redundant parenthesis pair and with extra blanks, x all 3^k leaf assignments; each rendering must load and equal the grammar's intended tree composed from the engine's own measured and/or/not tables.",
   note="Metamorphic: decoupled from the truth tables (C06); malformed conditions are not judged.",
   technique="exhaustive enumeration of condition ASTs and truth assignments; metamorphic oracle against a reference recursive-descent reading",
   ref="5/C05"),
 "C06": dict(
   text="The finite space of connective forms x arity 1..4 x {T,F,M}^k x thresholds 0..k+1 is enumerated completely through rule text and through hand-built expressions; every row is compared with the stated truth table (set-valued where the statement is silent).",
   note="Operand results are produced by real predicates (field = v / w / absent); non-true results of all()/of() are not pinned.",
   technique="complete enumeration of a finite truth-table space on the real solver",
   ref="5/C06"),
 "C07": dict(
   text="Or-groups of regexes that each compile but together exceed the regex set size limit (2-5 members, four rule forms, every switch set) must match exactly when a member matches on its own. All needles x all haystacks over small alphabets up to length bounds x every relation and case flag, singly and in all pairs / triples / quads of mixed members (as loaded and after optimisation), against the naive relation on &str and against the OR of the engine's own single-member verdicts.",
   note="Regexes outside the harness's small backtracking matcher fall back to the regex crate; longer and multi-byte strings are a seeded sample.",
   technique="bounded-exhaustive enumeration of (pattern list, haystack) against a reference model",
   ref="5/C07"),
 "C08": dict(
   text="All member lists up to a length bound per member class under k / all(k) / of(k,n) and as all(X)/of(X,n) over identifiers, x scalar documents; each quantified rule is compared with the same engine on the rule written out as and/or/not over one-member identifiers, with the count of single-member verdicts and with the reference interpreter.",
   note="Key lists under all/of on array fields are unspecified and not enumerated.",
   technique="bounded-exhaustive enumeration with a written-out-form differential oracle",
   ref="5/C08"),
 "C09": dict(
   text="operator x constant x key form / condition form x field value over the signed/unsigned 64-bit and double boundary sets is enumerated completely and compared with exact arithmetic (i128 / exact int-vs-double comparison) through the reference interpreter.",
   note="Rounding direction of float->int casts is not pinned; random 64-bit values are a seeded sample.",
   technique="complete enumeration of a finite boundary product against an exact-arithmetic reference",
   ref="5/C09"),
 "C10": dict(
   text="All paths up to depth N x all small document trees with unique leaves x 5 representations against a reference resolver (identity of the addressed value); the same through Rule::matches; nested-mapping form vs dotted form; totality of find() on all key strings up to a length bound. The whole exploration runs a second time in a harness built against tau-engine/sync (that feature carries its own copy of Object::find and of the adapter impls), and the wide-matrix family checks that cells beyond column 127 / 2047 are answered from their own field.",
   note="Malformed index syntax has only a totality oracle.",
   technique="bounded-exhaustive enumeration of (path, document) against a reference resolver",
   ref="5/C10"),
 "C11": dict(
   text="Every model document (shared alphabets + 64-bit/double extremes) is rendered into each supported representation and every rule of the numeric family and the shared universe must give the same verdict on all of them; every std adapter is checked to yield the value kind with the same numeric value and signedness. Repeated in a harness built against tau-engine/sync (own copies of the traits and of the HashMap adapter).",
   note="NaN/inf documents are skipped for JSON; f32 compared after exact widening.",
   technique="bounded-exhaustive differential enumeration across representations",
   ref="5/C11"),
 "C12": dict(
   text="Four exhaustive dimensions: (1) all iteration orders of every hooked optimiser map per rule x switch set - printed tree must be unique; (2) explicit-state search over all document sequences of length 4 on one shared rule - one reachable observable state, verdicts equal a fresh rule's; (3) shuttle DFS over ALL interleavings of matches() from 2-3 threads sharing Arc<Rule> at Document::find granularity, deviation-bounded DFS for 4-16 threads; (4) per-rule digests across child processes that handle the rules in different orders and environments, and every ordered pair of a state-sensitive rule slice in its own fresh process. Later additions, all exhaustive within their bounds: every iteration order of the rule's own identifiers map (2-4 identifiers, all n! orders drawn until realised) x 6 switch sets; every sequence up to depth 3/4 over nine pure API operations on one rule value against a fresh rule on a fresh thread; every ordered pair (thorough: triple) of optimise() calls with different switch sets on one thread; a confusable-rule family inside the ordered-pair slice; loading/optimising/matching with and without an all-levels tracing subscriber; every sequence up to depth 3/4 of loads over 13 accepted and rejected texts (accepted ones at the documented nesting bound) on one fresh thread - each load must produce what it produces first thing on a fresh thread.",
   note="Callback granularity is justified by a source scan re-run on every check (no shared mutable state in the engine); free-running 16-thread run and process comparison are samples, labelled so.",
   technique="explicit-state search over histories + exhaustive controlled-scheduler (shuttle DFS) exploration of interleavings + hash-order choice exploration",
   ref="5/C12"),
 "C13": dict(
   text="Rules x switch sets x all pairs of example lists (length 0-2) over matching / non-matching / empty / malformed entries; validate() must be Ok(true) iff matches() accepts every positive and rejects every negative, else a Validation error naming exactly the failing examples; never a panic. Plus explicit search over operation sequences on ONE rule value (validate, assign one of five example-list pairs, optimise, clone, replace the detection) up to depth 3/4: validate() must answer as a freshly loaded rule with the same public fields. Plus example lists of 3..100 (thorough 257) entries around every power of two x five positive/negative splits x the failing entry nowhere / first / middle / last, on rules whose optimised form is known to decide some documents differently.",
   note="Examples are identified in the error text by unique marker values, the message format is not pinned.",
   technique="bounded-exhaustive enumeration of example lists with matches() as oracle",
   ref="5/C13"),
 "C14": dict(
   text="Rules over a quoting-sensitive value alphabet in every value position x example shapes x {as loaded, optimised} are serialised and reloaded; the serialised view, the re-parsed tree and all verdicts must be equal, and from_str must agree with from_value.",
   note="serde_yaml's emitter/parser pair is trusted for plain YAML values.",
   technique="bounded-exhaustive round-trip enumeration (differential)",
   ref="5/C14"),
 "C15": dict(
   text="Two real builds of one enumeration: the ignore_case build evaluates each rule as written, the default build evaluates it with i prepended to every string pattern; load outcomes and three-valued result tables over all patterns up to a length bound (alphabet contains the prefix letter itself), lists, key modifiers and ASCII documents must be identical.",
   note="Both binaries are rebuilt from /repo's working tree by ./check C15.",
   technique="bounded-exhaustive differential enumeration across two builds (configurations)",
   ref="5/C15"),
 "C16": dict(
   text="Every rule x switch set (all distinct optimised trees) x documents on a recording document that logs every get() on the document and on nested objects: keys asked must be written in the rule, synthetic keys are never asked, and adding unaddressed fields (including the synthetic names) never changes the verdict. A second recorder at Document level checks that every key string presented to Document::find is, verbatim, a key written at the top level of an identifier or a field of the condition. A strided slice of the exploration is repeated in harnesses built against tau-engine/sync and tau-engine/ignore_case; the rule's own names in another case count as unaddressed fields.",
   note="Key attribution is by segment name, not exact nesting path.",
   technique="bounded-exhaustive exploration with an execution invariant on the recorded environment interaction",
   ref="5/C16"),
 "C17": dict(
   text="Every commutative position of 2-4 operands (list members of mixed kinds, sequence rows, mapping entries, and/or operands) x ALL permutations x documents, as loaded and optimised: whether the node is true must not depend on the order.",
   note="More than 4 operands are a seeded sample.",
   technique="exhaustive permutation enumeration (metamorphic oracle)",
   ref="5/C17"),
}
NA_REASON = "check not built yet in this phase (see DESIGN.md section 10 build order)"
def main():
    hooks = subprocess.run(["git","-C","/repo","log","--format=%H %s"],capture_output=True,text=True).stdout.splitlines()
    hook_commits=[l.split()[0] for l in hooks if l.split(' ',1)[1].startswith("verif hook")]
    m = {
      "version": 1,
      "setup_cmd": "./check --setup",
      "hooks": {
        "guard": "cargo feature `verif` of tau-engine",
        "enable": "harness depends on tau-engine by path (/repo) with features core,json,verif",
        "baseline_off_cmd": "cd /repo && cargo test --workspace --no-fail-fast --offline",
        "source_commits": hook_commits,
        "add_only": True,
      },
      "engines": [{"name":"tv","path":"/verif/harness","serves_properties":sorted(CHECKS),"kind_free_text":"Rust harness: stateless choice-point explorer (hash orders, adversarial document answers), exhaustive input enumerators, reference interpreter, shuttle DFS scheduler for callback-granularity interleavings"}],
      "checks": [],
      "not_applicable": [{"property_id":p,"reason":NA_REASON} for p in ALL if p not in CHECKS],
      "notes": "exit 2 of ./check is a machinery failure, never a verdict. known_findings.json lists recorded genuine defects by (property, signature).",
    }
    for p in sorted(CHECKS):
        c=CHECKS[p]
        m["checks"].append({
          "property_id": p,
          "quick_cmd": "./check %s quick" % p,
          "thorough_cmd": "./check %s thorough" % p,
          "evidence_file": "/verif/evidence/%s.json" % p,
          "replay_cmd_template": "./check --replay {path}",
          "engine": "tv",
          "level_claimed": {"category":"model_checking","text":c["text"],"design_ref":c["ref"]},
          "level_note": c["note"],
          "technique": c["technique"],
        })
    json.dump(m, open("/verif/MANIFEST.json","w"), indent=1)
main()
