//! C09: numeric comparisons and casts are order-correct and overflow-safe.

use rayon::prelude::*;
use serde_json::json;

use crate::c01::one_line;
use crate::eng;
use crate::mdoc::{s, MObj, MVal};
use crate::refint;
use crate::report::{Report, Rng, Stats, Tier, Violation};

fn field_class(v: Option<&MVal>) -> &'static str {
    match v {
        None => "absent",
        Some(MVal::Int(_)) => "Int",
        Some(MVal::UInt(u)) => {
            if *u > i64::MAX as u64 {
                "UInt>i64max"
            } else {
                "UInt"
            }
        }
        Some(MVal::Float(f)) => {
            if f.is_nan() {
                "NaN"
            } else if f.is_infinite() {
                "Inf"
            } else if f.abs() >= 9.3e18 {
                "Float-huge"
            } else {
                "Float"
            }
        }
        Some(MVal::Str(x)) => {
            if x.parse::<f64>().is_ok() {
                "Str-numeric"
            } else {
                "Str-other"
            }
        }
        Some(MVal::Bool(_)) => "Bool",
        Some(MVal::Null) => "Null",
        Some(MVal::Arr(_)) => "Array",
        Some(MVal::Obj(_)) => "Object",
    }
}

pub fn field_values(th: bool) -> Vec<Option<MVal>> {
    let mut v: Vec<Option<MVal>> = vec![None];
    for i in [i64::MIN, -2, -1, 0, 1, 2, 3, i64::MAX - 1, i64::MAX] {
        v.push(Some(MVal::Int(i)));
    }
    for u in [0u64, 1, 2, (1u64 << 63) - 1, 1u64 << 63, (1u64 << 63) + 1, u64::MAX] {
        v.push(Some(MVal::UInt(u)));
    }
    for f in [
        -0.0f64,
        0.0,
        0.5,
        1.0,
        1.4,
        1.5,
        1.6,
        2.5,
        -1.5,
        1e300,
        -1e300,
        9007199254740992.0,
        9223372036854775807.0,
        -9223372036854775808.0,
        1.8446744073709552e19,
        f64::NAN,
        f64::INFINITY,
        f64::NEG_INFINITY,
    ] {
        v.push(Some(MVal::Float(f)));
    }
    for t in ["1", " 1", "1.0", "1.5", "1e3", "nan", "inf", "x", "", "-1", "2", "9223372036854775807", "9223372036854775808", "+1", "0x1", "-9223372036854775808", "-9223372036854775809", "-0", "007", "1_0", "1 ", "١"] {
        v.push(Some(s(t)));
    }
    v.push(Some(MVal::Bool(true)));
    v.push(Some(MVal::Bool(false)));
    v.push(Some(MVal::Null));
    if th {
        v.push(Some(MVal::Arr(vec![MVal::Int(1)])));
        v.push(Some(MVal::Obj(crate::mdoc::MObj::new())));
    }
    v
}

fn int_consts() -> Vec<i64> {
    vec![i64::MIN, -1, 0, 1, 2, i64::MAX]
}
fn float_consts() -> Vec<&'static str> {
    vec!["-0.0", "0.0", "0.5", "1.0", "1.5", "1.0e300", "9007199254740993.0", "-1.5", "9223372036854775807.0"]
}

fn rule(body: &str, cond: &str) -> String {
    format!(
        "detection:\n  A: {}\n  condition: \"{}\"\ntrue_positives: []\ntrue_negatives: []\n",
        body, cond
    )
}

struct Case {
    form: String,
    yaml: String,
    two_fields: bool,
}

fn cases() -> Vec<Case> {
    let mut out = vec![];
    let ops = [("=", "=="), (">", ">"), (">=", ">="), ("<", "<"), ("<=", "<=")];
    for key in ["f", "int(f)", "flt(f)", "not(f)"] {
        for c in int_consts() {
            out.push(Case {
                form: format!("{}:bare-int", key),
                yaml: rule(&format!("{{\"{}\": {}}}", key, c), "A"),
                two_fields: false,
            });
            for (p, _) in ops {
                out.push(Case {
                    form: format!("{}:'{}int'", key, p),
                    yaml: rule(&format!("{{\"{}\": \"{}{}\"}}", key, p, c), "A"),
                    two_fields: false,
                });
            }
        }
        for c in float_consts() {
            if key != "int(f)" {
                out.push(Case {
                    form: format!("{}:bare-float", key),
                    yaml: rule(&format!("{{\"{}\": {}}}", key, c), "A"),
                    two_fields: false,
                });
            }
            for (p, _) in ops {
                out.push(Case {
                    form: format!("{}:'{}float'", key, p),
                    yaml: rule(&format!("{{\"{}\": \"{}{}\"}}", key, p, c), "A"),
                    two_fields: false,
                });
            }
        }
    }
    // the same predicates written as list members (the loader has a separate copy of every
    // numeric block for lists): one-member lists and a list with an unsatisfiable second member
    for key in ["f", "flt(f)", "all(f)", "of(f, 1)"] {
        for (p, _) in ops {
            for c in ["0", "1", "9223372036854775807", "-1"] {
                out.push(Case {
                    form: format!("{}:['{}int']", key, p),
                    yaml: rule(&format!("{{\"{}\": [\"{}{}\"]}}", key, p, c), "A"),
                    two_fields: false,
                });
            }
            for c in ["0.0", "0.5", "1.5", "-1.5", "1.0e300"] {
                out.push(Case {
                    form: format!("{}:['{}float']", key, p),
                    yaml: rule(&format!("{{\"{}\": [\"{}{}\"]}}", key, p, c), "A"),
                    two_fields: false,
                });
                out.push(Case {
                    form: format!("{}:['{}float','=nan-like']", key, p),
                    yaml: rule(&format!("{{\"{}\": [\"{}{}\", \"=123456.5\"]}}", key, p, c), "A"),
                    two_fields: false,
                });
            }
        }
    }
    // integer constants outside the i64 range: rejected at load today; if one ever loads it must
    // be judged by exact arithmetic, not clamped or wrapped
    for key in ["f", "int(f)", "not(f)"] {
        for c in ["9223372036854775808", "18446744073709551615", "18446744073709551616", "-9223372036854775809", "99999999999999999999"] {
            for (p, _) in ops {
                out.push(Case {
                    form: format!("{}:'{}int-outside-i64'", key, p),
                    yaml: rule(&format!("{{\"{}\": \"{}{}\"}}", key, p, c), "A"),
                    two_fields: false,
                });
            }
        }
    }
    // str(): canonical decimal text
    for c in ["1", "-1", "0", "1.5", "9223372036854775807", "true", "1.0"] {
        out.push(Case {
            form: "str(f):bare".into(),
            yaml: rule(&format!("{{\"str(f)\": {}}}", c), "A"),
            two_fields: false,
        });
        out.push(Case {
            form: "str(f):text".into(),
            yaml: rule(&format!("{{\"str(f)\": \"{}\"}}", c), "A"),
            two_fields: false,
        });
    }
    // booleans under int(): true == 1
    for b in ["true", "false"] {
        for key in ["f", "int(f)", "str(f)"] {
            out.push(Case {
                form: format!("{}:bool", key),
                yaml: rule(&format!("{{\"{}\": {}}}", key, b), "A"),
                two_fields: false,
            });
        }
    }
    // lists of numbers under quantifiers
    for k in ["f", "all(f)", "of(f, 1)", "of(f, 2)", "int(f)"] {
        out.push(Case {
            form: format!("{}:[ints]", k),
            yaml: rule(&format!("{{\"{}\": [1, \">=2\", \"<0\"]}}", k), "A"),
            two_fields: false,
        });
    }
    // condition comparisons (non-negative constants only: the tokeniser has no unary minus)
    for (_, op) in ops {
        for c in [0i64, 1, 2, i64::MAX] {
            out.push(Case {
                form: format!("cond:int(f){}c", op),
                yaml: rule("{zz: x}", &format!("int(f) {} {}", op, c)),
                two_fields: false,
            });
            out.push(Case {
                form: format!("cond:c{}int(f)", op),
                yaml: rule("{zz: x}", &format!("{} {} int(f)", c, op)),
                two_fields: false,
            });
        }
        for c in ["0.0", "0.5", "1.0", "1.5", "9223372036854775807.0"] {
            out.push(Case {
                form: format!("cond:flt(f){}c", op),
                yaml: rule("{zz: x}", &format!("flt(f) {} {}", op, c)),
                two_fields: false,
            });
            out.push(Case {
                form: format!("cond:c{}flt(f)", op),
                yaml: rule("{zz: x}", &format!("{} {} flt(f)", c, op)),
                two_fields: false,
            });
        }
        out.push(Case {
            form: format!("cond:int(f){}int(g)", op),
            yaml: rule("{zz: x}", &format!("int(f) {} int(g)", op)),
            two_fields: true,
        });
        out.push(Case {
            form: format!("cond:flt(f){}flt(g)", op),
            yaml: rule("{zz: x}", &format!("flt(f) {} flt(g)", op)),
            two_fields: true,
        });
        out.push(Case {
            form: format!("cond:not(int(f){}c)", op),
            yaml: rule("{zz: x}", &format!("not (int(f) {} 1)", op)),
            two_fields: false,
        });
    }
    for (form, cond) in [
        ("cond:or-of-three-cmps", "int(f) > 5 or int(f) == 1 or int(g) == 2"),
        ("cond:and-rows-in-or", "(int(f) > 5 and flt(g) >= 1.5) or (int(f) == 1 and flt(g) < 1.5) or int(f) == 2"),
        ("cond:cmp-and-ident", "(int(f) >= 1 and A) or (flt(f) < 0.5 and A) or int(g) == 1"),
    ] {
        out.push(Case {
            form: form.into(),
            yaml: rule("{g: '*'}", cond),
            two_fields: true,
        });
    }
    for body in [
        "[{\"int(f)\": \">5\", g: \"*\"}, {\"int(f)\": 1, g: \"*\"}, {\"flt(f)\": \">=1.5\"}]",
        "[{f: \">5\", \"str(g)\": \"1*\"}, {f: 1}, {f: \"<0\", g: 1}]",
    ] {
        out.push(Case {
            form: "rows-with-casts".into(),
            yaml: rule(body, "A"),
            two_fields: true,
        });
    }
    out.push(Case {
        form: "cond:str(f)==str(g)".into(),
        yaml: rule("{zz: x}", "str(f) == str(g)"),
        two_fields: true,
    });
    out
}

fn bit(v: i8) -> u8 {
    match v {
        1 => refint::T,
        0 => refint::F,
        -1 => refint::M,
        _ => 0,
    }
}

fn check_case(c: &Case, vals: &[Option<MVal>], vals2: &[Option<MVal>]) -> Stats {
    let mut st = Stats::default();
    let rule = match eng::load(&c.yaml) {
        Ok(r) => r,
        Err(_) => {
            st.count("rules_rejected_by_loader", 1);
            return st;
        }
    };
    let rr = match refint::parse_rule(&c.yaml) {
        Some(r) => r,
        None => {
            st.count("rules_outside_reference_model", 1);
            return st;
        }
    };
    let mut t = false;
    let mut nt = false;
    let optimised: Vec<(u8, tau_engine::Rule)> = [eng::SW_DEFAULT, 0b1010, 0b0110]
        .iter()
        .filter_map(|sw| eng::optimise_with(&rule, *sw, &[]).ok().map(|x| (*sw, x.0)))
        .collect();
    let gs: Vec<Option<MVal>> = if c.two_fields { vals2.to_vec() } else { vec![None] };
    for fv in vals {
        for gv in &gs {
            let mut d = MObj::new();
            if let Some(v) = fv {
                d.set("f", v.clone());
            }
            if let Some(v) = gv {
                d.set("g", v.clone());
            }
            let exp = refint::eval_rule(&rr, &d);
            let v = eng::val3(&rule, &d).unwrap_or(2);
            let m = eng::matches(&rule, &d);
            st.states += 1;
            st.transitions += 2;
            st.traces += 1;
            st.evaluations += 1;
            if v == 1 {
                t = true
            } else {
                nt = true
            }
            if exp.count_ones() == 1 {
                st.count("predictions_that_are_singletons", 1);
            }
            for (sw, o) in &optimised {
                let ov = eng::val3(o, &d).unwrap_or(2);
                st.transitions += 1;
                // after optimisation only truth is compared: which non-true value an optimised
                // conjunction reports depends on operand order (recorded C01 finding)
                let truth_ok = if ov == 1 { exp & refint::T != 0 } else { ov != 2 && exp != refint::T };
                if !truth_ok {
                    st.push_violation(Violation {
                        signature: format!("{} after optimise({}): engine {} reference {}", c.form, eng::sw_name(*sw), eng::v3name(ov), refint::set_name(exp)),
                        witness: format!("optimised {} reference {} ; rule {} doc {}", eng::v3name(ov), refint::set_name(exp), one_line(&c.yaml), d.show()),
                        replay: json!({"kind":"optimise","rule_yaml":c.yaml,"sw_bits":sw,"hash_order_choices":[],"document":crate::report::mobj_to_json(&d)}),
                    });
                }
            }
            // the same document as a serde_yaml mapping and as a serde_json map (the adapters decide
            // which numeric kind the solver sees: u64 -> UInt, i64 -> Int, f64 -> Float)
            let ym = crate::mdoc::to_yaml_map(&d);
            let jm = crate::mdoc::to_json_map(&d);
            let mut reps: Vec<(&'static str, i8)> = vec![("serde_yaml", eng::val3(&rule, &ym).unwrap_or(2))];
            if let Some(jm) = &jm {
                reps.push(("serde_json", eng::val3(&rule, jm).unwrap_or(2)));
            }
            for (name, rv) in reps {
                st.transitions += 1;
                st.evaluations += 1;
                if bit(rv) & exp == 0 {
                    st.push_violation(Violation {
                        signature: format!("{} on {} document: engine {} reference {}", c.form, name, if rv == 2 { "PANIC" } else { eng::v3name(rv) }, refint::set_name(exp)),
                        witness: format!("engine {} on the {} rendering, reference {} ; rule {} doc {}", eng::v3name(rv), name, refint::set_name(exp), one_line(&c.yaml), d.show()),
                        replay: json!({"kind":"reference","rule_yaml":c.yaml,"document":crate::report::mobj_to_json(&d),"reference":refint::set_name(exp),"representation":name}),
                    });
                }
            }
            if bit(v) & exp == 0 || m != Ok(v == 1) {
                let cls = if c.two_fields {
                    format!("{}/{}", field_class(fv.as_ref()), field_class(gv.as_ref()))
                } else {
                    field_class(fv.as_ref()).to_string()
                };
                st.push_violation(Violation {
                    signature: format!(
                        "{} on {}: engine {} reference {}",
                        c.form,
                        cls,
                        if v == 2 { "PANIC" } else { eng::v3name(v) },
                        refint::set_name(exp)
                    ),
                    witness: format!(
                        "engine {} (matches {:?}) reference {} ; rule {} doc {}",
                        eng::v3name(v),
                        m,
                        refint::set_name(exp),
                        one_line(&c.yaml),
                        d.show()
                    ),
                    replay: json!({"kind":"reference","rule_yaml":c.yaml,"document":crate::report::mobj_to_json(&d),"reference":refint::set_name(exp)}),
                });
            }
        }
    }
    if t && nt {
        st.nontrivial += 1;
    }
    st
}

pub fn run(tier: Tier) -> i32 {
    let mut rep = Report::new("C09", tier);
    let th = tier.thorough();
    let vals = field_values(th);
    // second field: a representative subset (full set in thorough)
    let vals2: Vec<Option<MVal>> = if th {
        vals.clone()
    } else {
        vals.iter().step_by(3).cloned().collect()
    };
    let cs = cases();
    let parts: Vec<Stats> = cs.par_iter().map(|c| check_case(c, &vals, &vals2)).collect();
    for p in parts {
        rep.stats.merge(p);
    }
    rep.stats.count("rule_forms", cs.len() as u64);
    rep.stats.count("field_values", vals.len() as u64);
    // sampled supplement: random 64-bit values against random constants
    let mut rng = Rng::new(crate::report::seed());
    let n = if th { 20000 } else { 2000 };
    let mut sup = Stats::default();
    let ops = ["=", ">", ">=", "<", "<="];
    for _ in 0..n {
        let c = rng.next() as i64 >> (rng.below(64) as u32);
        let op = ops[rng.below(5)];
        let key = ["f", "int(f)"][rng.below(2)];
        let fv = match rng.below(3) {
            0 => MVal::Int(rng.next() as i64 >> (rng.below(64) as u32)),
            1 => MVal::UInt(rng.next() >> (rng.below(64) as u32)),
            _ => MVal::Int(c.wrapping_add(rng.below(3) as i64 - 1)),
        };
        let case = Case {
            form: format!("{}:'{}int'", key, op),
            yaml: rule(&format!("{{\"{}\": \"{}{}\"}}", key, op, c), "A"),
            two_fields: false,
        };
        let st = check_case(&case, &[Some(fv)], &[]);
        sup.count("cases", 1);
        for v in st.violations {
            sup.push_violation(v);
        }
    }
    rep.extra.insert(
        "sampled_supplement".into(),
        json!({"cases": n, "what": "seeded random 64-bit field values and constants; not part of the exhaustive claim"}),
    );
    for v in sup.violations {
        rep.stats.push_violation(v);
    }
    rep.stats.sample(json!({"rule":"f: '>=1'","field":"18446744073709551615u","reference":"{T}"}));
    rep.stats.sample(json!({"condition":"int(f) == 9223372036854775807","field":"1e300f","reference":"{F} (not convertible)"}));
    rep.rule = "operator {bare,=,>,>=,<,<=} x constant (i64 boundary set as YAML number and as pattern string; float set) x key form (plain, int(), flt(), not(), str(), quantified lists) and condition comparisons in both operand orders and field-vs-field x field value over the 64-bit / double boundary set incl. NaN, infinities, numeric and non-numeric strings, booleans, null, absent - the full product. Oracle: exact arithmetic in i128 / exact int-vs-double comparison (reference interpreter): same-kind comparisons must be exact (hence trichotomy), cross-kind ones may only be true when the relation holds, non-convertible casts are false, never a panic. non-trivial = the rule form has a true and a non-true field value".into();
    rep.assumptions = vec!["float->int rounding direction is not fixed (any of round/floor/ceil/trunc accepted)".into()];
    rep.finish()
}
