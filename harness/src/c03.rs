//! C03: an accepted rule can always be evaluated - no panic after load, whatever the document says.

use std::collections::{HashMap, HashSet};

use rayon::prelude::*;
use serde_json::json;
use serde_yaml::Value as Y;
use tau_engine::core::parser::{BoolSym, Expression};
use tau_engine::{AsValue, Document, Rule, Value};

use crate::c01::one_line;
use crate::c04::{count_upto, nth_string};
use crate::eng;
use crate::gen;
use crate::mdoc::{arr, obj, s, MVal};
use crate::report::{catch, Report, Stats, Tier, Violation};

const TOKENS: [&str; 21] = [
    "A", "B", "and ", "or ", "not ", "(", ")", "all(", "of(", "int(", "flt(", "str(", "not(", "1", "1.5",
    "==", "<", ">=", ",", "f", " ",
];

const KEY_ALPHA: [&str; 9] = ["a", "b", ".", "[", "]", "0", "1", "-", " "];

fn key_rule(k: &str, form: u8) -> Y {
    let ys = |x: &str| Y::String(x.to_string());
    let mut body = serde_yaml::Mapping::new();
    match form {
        0 => {
            body.insert(ys(k), ys("x"));
        }
        1 => {
            let mut inner = serde_yaml::Mapping::new();
            inner.insert(ys(k), ys("x"));
            body.insert(ys("n"), Y::Mapping(inner));
        }
        2 => {
            body.insert(ys(&format!("all({})", k)), Y::Sequence(vec![ys("x"), ys("*y")]));
        }
        _ => {
            body.insert(ys(&format!("int({})", k)), Y::Number(1.into()));
        }
    }
    let mut det = serde_yaml::Mapping::new();
    det.insert(ys("A"), Y::Mapping(body));
    det.insert(ys("condition"), ys("A"));
    let mut top = serde_yaml::Mapping::new();
    top.insert(ys("detection"), Y::Mapping(det));
    top.insert(ys("true_positives"), Y::Sequence(vec![]));
    top.insert(ys("true_negatives"), Y::Sequence(vec![]));
    Y::Mapping(top)
}

fn key_docs() -> Vec<crate::mdoc::MObj> {
    let o = |v: MVal| match v {
        MVal::Obj(o) => o,
        _ => unreachable!(),
    };
    vec![
        o(obj(vec![])),
        o(obj(vec![("a", s("x")), ("b", MVal::Int(1))])),
        o(obj(vec![("a", arr(vec![s("x"), s("y")])), ("b", obj(vec![("a", s("x"))]))])),
        o(obj(vec![
            ("a", obj(vec![("b", s("x")), ("0", s("x")), ("a", arr(vec![s("x")]))])),
            ("n", obj(vec![("a", arr(vec![s("x")])), ("b", obj(vec![("a", s("x"))]))])),
        ])),
        o(obj(vec![
            ("a]b", arr(vec![s("x")])),
            ("a[0]", s("x")),
            ("a", arr(vec![obj(vec![("b", s("x"))]), arr(vec![s("x")])])),
            ("n", arr(vec![obj(vec![("a", s("x"))])])),
        ])),
    ]
}

/// a nested object whose every `get` is again a choice point (over the scalar / array answers)
pub struct AdvObj {
    pub answers: Vec<Option<MVal>>,
}
impl tau_engine::Object for AdvObj {
    fn get(&self, _key: &str) -> Option<Value<'_>> {
        let c = tau_engine::verif::choose(self.answers.len() as u32) as usize;
        self.answers[c].as_ref().map(|v| v.as_value())
    }
    fn keys(&self) -> Vec<std::borrow::Cow<'_, str>> {
        vec![std::borrow::Cow::Borrowed("x")]
    }
    fn len(&self) -> usize {
        1
    }
}

pub struct AdvDoc {
    pub answers: Vec<Option<MVal>>,
    pub nested: AdvObj,
    pub nested_arr: Vec<AdvObj>,
}
impl AdvDoc {
    pub fn new(answers: Vec<Option<MVal>>) -> Self {
        let inner: Vec<Option<MVal>> = answers
            .iter()
            .filter(|a| !matches!(a, Some(MVal::Obj(_))))
            .take(7)
            .cloned()
            .collect();
        AdvDoc {
            nested: AdvObj { answers: inner.clone() },
            nested_arr: vec![AdvObj { answers: inner.clone() }, AdvObj { answers: inner }],
            answers,
        }
    }
    pub fn answer_name(&self, c: usize) -> String {
        if c < self.answers.len() {
            self.answers[c].as_ref().map(|v| v.show()).unwrap_or("absent".into())
        } else if c == self.answers.len() {
            "<adversarial object>".into()
        } else {
            "<array of adversarial objects>".into()
        }
    }
}
impl Document for AdvDoc {
    fn find(&self, _key: &str) -> Option<Value<'_>> {
        let n = self.answers.len();
        let c = tau_engine::verif::choose(n as u32 + 2) as usize;
        if c < n {
            self.answers[c].as_ref().map(|v| v.as_value())
        } else if c == n {
            Some(Value::Object(&self.nested))
        } else {
            Some(Value::Array(&self.nested_arr))
        }
    }
}

pub fn answers(th: bool) -> Vec<Option<MVal>> {
    let deep = obj(vec![(
        "x",
        obj(vec![("x", obj(vec![("x", s("a")), ("y", MVal::Null)])), ("y", arr(vec![]))]),
    )]);
    let mut v = vec![
        Some(s("a")),
        None,
        Some(MVal::Int(1)),
        Some(MVal::Float(f64::NAN)),
        Some(MVal::UInt(u64::MAX)),
        Some(arr(vec![])),
        Some(arr(vec![MVal::Int(1), s("a"), MVal::Null, obj(vec![("x", s("a"))]), arr(vec![])])),
        Some(obj(vec![("x", s("a")), ("f", MVal::Int(1)), ("g", arr(vec![s("a")]))])),
        Some(MVal::Null),
        Some(MVal::Bool(true)),
        // text that starts and ends inside a multi-byte character for every byte offset 1..3
        Some(s("éa€")),
    ];
    if th {
        v.extend(vec![
            Some(s("")),
            Some(s("aé")),
            Some(MVal::Int(i64::MIN)),
            Some(MVal::Int(i64::MAX)),
            Some(MVal::Float(f64::INFINITY)),
            Some(MVal::Float(-0.0)),
            Some(MVal::Float(1e300)),
            Some(arr(vec![obj(vec![("x", s("a"))]), obj(vec![]), obj(vec![("x", MVal::Int(1))])])),
            Some(deep),
            Some(obj(vec![])),
        ]);
    }
    v
}

/// The structural half of the statement: every operand of and/or/not is a predicate, every
/// identifier exists. Returns a description of the first offence.
pub fn structure(e: &Expression, ids: &HashMap<String, Expression>) -> Option<String> {
    fn pred(e: &Expression, what: &str) -> Option<String> {
        if e.is_solvable() {
            None
        } else {
            Some(format!("{} is not a predicate: {}", what, e))
        }
    }
    match e {
        Expression::BooleanExpression(l, op, r) => match op {
            BoolSym::And | BoolSym::Or => pred(l, "operand of and/or")
                .or_else(|| pred(r, "operand of and/or"))
                .or_else(|| structure(l, ids))
                .or_else(|| structure(r, ids)),
            _ => None,
        },
        Expression::BooleanGroup(_, g) => {
            for x in g {
                if let Some(m) = pred(x, "group member").or_else(|| structure(x, ids)) {
                    return Some(m);
                }
            }
            None
        }
        Expression::Negate(x) => pred(x, "operand of not").or_else(|| structure(x, ids)),
        Expression::Nested(_, x) => pred(x, "nested block").or_else(|| structure(x, ids)),
        Expression::Match(_, x) => match &**x {
            Expression::Identifier(i) => {
                if ids.contains_key(i) {
                    None
                } else {
                    Some(format!("quantifier over unknown identifier {}", i))
                }
            }
            other => pred(other, "quantified expression").or_else(|| structure(other, ids)),
        },
        Expression::Identifier(i) => {
            if ids.contains_key(i) {
                None
            } else {
                Some(format!("unknown identifier {}", i))
            }
        }
        _ => None,
    }
}

fn skeleton() -> Y {
    serde_yaml::from_str(
        "detection:\n  A: {f: x}\n  B: [{g: 1}, {f: ['a*', '?b']}, {n: {x: '*a'}}, {'all(h)': ['*a*', '*b*']}, {'int(f)': '>=1'}, {'str(g)': '1*'}, {h: null}, {h: true}]\n  condition: A\ntrue_positives: []\ntrue_negatives: []\n",
    )
    .unwrap()
}

/// optimise with every switch set, dedupe by canonical tree, then explore adversarial answers
fn torture(rule: &Rule, yaml_for_replay: &str, adv: &AdvDoc, bound: u32, cap: u64, st: &mut Stats) {
    let mut seen: HashSet<String> = HashSet::new();
    let mut variants: Vec<(u8, Rule)> = vec![];
    if seen.insert(eng::canon(rule)) {
        variants.push((0, rule.clone()));
    }
    for sw in 1u8..16 {
        match eng::optimise_with(rule, sw, &[]) {
            Ok((r, _)) => {
                if seen.insert(eng::canon(&r)) {
                    variants.push((sw, r));
                }
            }
            Err(msg) => st.push_violation(Violation {
                signature: format!("panic-in-optimise:{}", msg.chars().take(50).collect::<String>()),
                witness: format!("optimise({}) panics: {} ; rule {}", eng::sw_name(sw), msg, one_line(yaml_for_replay)),
                replay: json!({"kind":"optimise","rule_yaml":yaml_for_replay,"sw_bits":sw,"hash_order_choices":[]}),
            }),
        }
        st.transitions += 1;
    }
    for (sw, r) in &variants {
        st.states += 1;
        // structure
        if let Some(m) = structure(&r.detection.expression, &r.detection.identifiers).or_else(|| {
            let mut keys: Vec<&String> = r.detection.identifiers.keys().collect();
            keys.sort();
            keys.into_iter()
                .find_map(|k| structure(&r.detection.identifiers[k], &r.detection.identifiers))
        }) {
            st.push_violation(Violation {
                signature: format!("accepted-rule-is-not-evaluable:{}", m.split(':').next().unwrap_or("")),
                witness: format!("{} (switches {}) ; rule {}", m, eng::sw_name(*sw), one_line(yaml_for_replay)),
                replay: json!({"kind":"optimise","rule_yaml":yaml_for_replay,"sw_bits":sw,"hash_order_choices":[]}),
            });
        }
        let ex = eng::explore_bounded(bound, cap, |prefix| {
            tau_engine::verif::set_script(prefix.to_vec());
            let res = catch(|| r.matches(adv));
            let trace = tau_engine::verif::take_trace();
            st.transitions += 1 + trace.len() as u64;
            st.evaluations += 1;
            st.traces += 1;
            if let Err(msg) = res {
                let ans: Vec<String> = trace.iter().map(|(a, c)| format!("{}/{}", c, a)).collect();
                st.push_violation(Violation {
                    signature: format!("panic-in-matches:{}", msg.chars().take(50).collect::<String>()),
                    witness: format!(
                        "matches panics ({}) after optimise({}) with document answers {:?} ; rule {}",
                        msg,
                        eng::sw_name(*sw),
                        ans,
                        one_line(yaml_for_replay)
                    ),
                    replay: json!({"kind":"adversarial","rule_yaml":yaml_for_replay,"sw_bits":sw,"answer_choices":trace.iter().map(|(_, c)| *c).collect::<Vec<_>>(),"answers":ans}),
                });
            }
            trace
        });
        if ex.capped {
            st.count("variants_with_answer_cap_hit", 1);
        }
        st.count("adversarial_answer_sequences", ex.leaves);
    }
}

pub fn run(tier: Tier) -> i32 {
    let mut rep = Report::new("C03", tier);
    let th = tier.thorough();
    let adv_answers = answers(th);
    let bound = if th { 3 } else { 2 };
    let cap = if th { 400000 } else { 40000 };
    // (a) every token string as a condition
    let tok_len = if th { 6 } else { 5 };
    let total = count_upto(TOKENS.len(), tok_len);
    let base = skeleton();
    let chunk = 16384u64;
    let chunks: Vec<u64> = (0..(total + chunk - 1) / chunk).collect();
    let loaded: Vec<(Vec<(String, Rule)>, Stats)> = chunks
        .par_iter()
        .map(|c| {
            let mut st = Stats::default();
            let mut out = vec![];
            let lo = c * chunk;
            let hi = (lo + chunk).min(total);
            for i in lo..hi {
                let cond = nth_string(&TOKENS, i);
                let mut v = base.clone();
                if let Some(Y::Mapping(d)) = v.get_mut("detection") {
                    d.insert(Y::String("condition".into()), Y::String(cond.clone()));
                }
                st.transitions += 1;
                match catch(move || Rule::from_value(v)) {
                    Ok(Ok(r)) => out.push((cond, r)),
                    Ok(Err(_)) => {}
                    Err(_) => st.count("load_panics(C04)", 1),
                }
            }
            (out, st)
        })
        .collect();
    let mut rules: Vec<(String, Rule)> = vec![];
    for (o, st) in loaded {
        rep.stats.merge(st);
        rules.extend(o);
    }
    rep.stats.count("token_conditions_enumerated", total);
    rep.stats.count("token_conditions_loaded", rules.len() as u64);
    // distinct by parsed expression (spaces and parentheses produce many duplicates)
    let mut seen = HashSet::new();
    let rules: Vec<(String, Rule)> = rules
        .into_iter()
        .filter(|(_, r)| seen.insert(format!("{}", r.detection.expression)))
        .collect();
    rep.stats.count("token_conditions_distinct_expressions", rules.len() as u64);
    let parts: Vec<Stats> = rules
        .par_iter()
        .map(|(cond, r)| {
            let mut st = Stats::default();
            let adv = AdvDoc::new(adv_answers.clone());
            let yaml = format!(
                "detection:\n  A: {{f: x}}\n  B: [{{g: 1}}, {{f: ['a*', '?b']}}, {{n: {{x: '*a'}}}}, {{'all(h)': ['*a*', '*b*']}}, {{'int(f)': '>=1'}}, {{'str(g)': '1*'}}, {{h: null}}, {{h: true}}]\n  condition: {}\ntrue_positives: []\ntrue_negatives: []\n",
                serde_json::to_string(cond).unwrap()
            );
            torture(r, &yaml, &adv, bound, cap, &mut st);
            st.nontrivial += 1;
            st
        })
        .collect();
    for p in parts {
        rep.stats.merge(p);
    }
    // (b) the shared rule universe under adversarial documents
    let mut specs = gen::family_single(0);
    specs.extend(gen::family_conditions(0));
    specs.extend(gen::family_bodies(0));
    specs.extend(gen::family_regex(3));
    specs.extend(gen::family_castconds(0).into_iter().step_by(if th { 1 } else { 3 }));
    specs.extend(gen::family_paths(0));
    specs.extend(gen::family_wide().into_iter().step_by(4));
    // case-insensitive anchored needles (single and in lists): code that positions itself inside
    // the document text by the needle's byte length meets the multi-byte answers here
    {
        use crate::gen::{e, list, st, Body};
        for p in ["ia*", "i*b", "iab", "iab*", "i*ab", "ab*", "*ab", "i*a*"] {
            specs.push(gen::RuleSpec::one(Body::Map(vec![e("f", st(p))])));
            specs.push(gen::RuleSpec::one(Body::Map(vec![e("str(f)", st(p))])));
            specs.push(gen::RuleSpec::one(Body::Map(vec![e("all(f)", list(vec![st(p), st("?a")]))])));
            specs.push(gen::RuleSpec::one(Body::Map(vec![e("n", crate::gen::map(vec![e("x", st(p))]))])));
        }
    }
    let mx = gen::family_matrix(0);
    specs.extend(mx.into_iter().step_by(if th { 2 } else { 9 }));
    if th {
        specs.extend(gen::family_single(1).into_iter().step_by(3));
    }
    rep.stats.count("universe_specs", specs.len() as u64);
    let parts: Vec<Stats> = specs
        .par_iter()
        .map(|spec| {
            let mut st = Stats::default();
            let yaml = spec.yaml();
            if let Ok(r) = eng::load(&yaml) {
                let adv = AdvDoc::new(adv_answers.clone());
                torture(&r, &yaml, &adv, bound.min(2), cap, &mut st);
                st.nontrivial += 1;
                st.count("universe_rules_loaded", 1);
            }
            st
        })
        .collect();
    for p in parts {
        rep.stats.merge(p);
    }
    // (b2) regexes that are each cheap enough to load but heavy together: the optimiser merges the
    //      searches of an or-group into one set and must survive when that set does not build
    {
        let heavy = ["?\\pL{150}", "?x\\pL{150}", "i?\\pL{150}", "i?y\\pL{150}", "?\\w{120}", "?a", "a*"];
        let mut yamls: Vec<String> = vec![];
        for a in heavy {
            for b in heavy {
                let q = |x: &str| serde_json::to_string(x).unwrap();
                yamls.push(format!("detection:\n  A: [{{k: {}}}, {{k: {}}}]\n  condition: A\ntrue_positives: []\ntrue_negatives: []\n", q(a), q(b)));
                yamls.push(format!("detection:\n  A: {{k: {}}}\n  B: {{k: {}}}\n  C: {{k: '?z'}}\n  condition: A or B or C\ntrue_positives: []\ntrue_negatives: []\n", q(a), q(b)));
                yamls.push(format!("detection:\n  A: [{{k: {}, g: x}}, {{k: {}, g: y}}, {{k: {}}}]\n  condition: not A\ntrue_positives: []\ntrue_negatives: []\n", q(a), q(b), q(a)));
            }
        }
        let parts: Vec<Stats> = yamls
            .par_iter()
            .map(|yaml| {
                let mut st = Stats::default();
                if let Ok(r) = eng::load(yaml) {
                    let adv = AdvDoc::new(adv_answers.iter().take(6).cloned().collect());
                    torture(&r, yaml, &adv, 1, cap, &mut st);
                    st.nontrivial += 1;
                    st.count("heavy_regex_rules_loaded", 1);
                }
                st
            })
            .collect();
        for p in parts {
            rep.stats.merge(p);
        }
    }
    // (c) validate() never panics on a loaded rule, whatever the examples are
    let examples = [
        "[]", "[{f: x}]", "[foo]", "[1]", "[null]", "[[a]]", "[true]", "[{}]", "[{f: [1, {g: x}]}, 1.5]", "[{1: x}]",
        "[!tag {f: x}]", "[{f: .nan}]",
    ];
    for tp in examples {
        for tn in examples {
            let y = format!(
                "detection:\n  A: {{f: x, n: {{x: ['a*', 1]}}}}\n  condition: A\ntrue_positives: {}\ntrue_negatives: {}\n",
                tp, tn
            );
            if let Ok(r) = eng::load(&y) {
                rep.stats.states += 1;
                rep.stats.transitions += 1;
                rep.stats.evaluations += 1;
                rep.stats.traces += 1;
                for sw in [0u8, 15] {
                    let r2 = match eng::optimise_with(&r, sw, &[]) {
                        Ok((x, _)) => x,
                        Err(_) => continue,
                    };
                    if let Err(msg) = catch(|| r2.validate().is_ok()) {
                        rep.stats.push_violation(Violation {
                            signature: format!("panic-in-validate:{}", msg.chars().take(50).collect::<String>()),
                            witness: format!("validate() panics: {} ; true_positives {} true_negatives {}", msg, tp, tn),
                            replay: json!({"kind":"validate","rule_yaml":y,"sw_bits":sw}),
                        });
                    }
                }
            }
        }
    }
    // (d) every short string over a bracket/dot alphabet as a *field name*, evaluated on concrete
    // documents through the crate's own Object::find (the adversarial document answers find() itself,
    // so the path parser inside Object::find is only reached here)
    let key_len = if th { 5 } else { 4 };
    let ktotal = count_upto(KEY_ALPHA.len(), key_len);
    let kdocs = key_docs();
    let kchunks: Vec<u64> = (0..(ktotal + 2047) / 2048).collect();
    let parts: Vec<Stats> = kchunks
        .par_iter()
        .map(|c| {
            let mut st = Stats::default();
            for i in (c * 2048)..((c * 2048 + 2048).min(ktotal)) {
                let k = nth_string(&KEY_ALPHA, i);
                for form in 0..4u8 {
                    let v = key_rule(&k, form);
                    let yaml = serde_yaml::to_string(&v).unwrap_or_default();
                    st.transitions += 1;
                    let r = match catch(move || Rule::from_value(v)) {
                        Ok(Ok(r)) => r,
                        _ => continue,
                    };
                    st.count("odd_field_names_loaded", 1);
                    st.nontrivial += 1;
                    for sw in [0u8, 15] {
                        let r2 = match eng::optimise_with(&r, sw, &[]) {
                            Ok((x, _)) => x,
                            Err(msg) => {
                                st.push_violation(Violation {
                                    signature: format!("panic-in-optimise:{}", msg.chars().take(50).collect::<String>()),
                                    witness: format!("optimise({}) panics: {} ; field name {:?}", eng::sw_name(sw), msg, k),
                                    replay: json!({"kind":"optimise","rule_yaml":yaml,"sw_bits":sw,"hash_order_choices":[]}),
                                });
                                continue;
                            }
                        };
                        for d in &kdocs {
                            let ym = crate::mdoc::to_yaml_map(d);
                            let a = catch(|| r2.matches(d));
                            let b = catch(|| r2.matches(&ym));
                            st.states += 1;
                            st.transitions += 2;
                            st.evaluations += 2;
                            st.traces += 2;
                            if let Err(msg) = a.and(b) {
                                st.push_violation(Violation {
                                    signature: format!("panic-in-matches:{}", msg.chars().take(50).collect::<String>()),
                                    witness: format!("matches panics ({}) for field name {:?} (form {}) after optimise({}) on {}", msg, k, form, eng::sw_name(sw), d.show()),
                                    replay: json!({"kind":"optimise","rule_yaml":yaml,"sw_bits":sw,"hash_order_choices":[],"document":crate::report::mobj_to_json(d)}),
                                });
                            }
                        }
                    }
                }
            }
            st
        })
        .collect();
    for p in parts {
        rep.stats.merge(p);
    }
    rep.stats.count("odd_field_names_enumerated", ktotal);
    rep.exhaustive = rep.stats.counters.get("variants_with_answer_cap_hit").cloned().unwrap_or(0) == 0;
    rep.stats.sample(json!({"condition":"A and not(f)","outcome":"must be rejected at load, or evaluate without panic"}));
    rep.stats.sample(json!({"rule":"B and all(A)","switches":"shake+matrix","document_answers":["NaNf","absent","[1i, \"a\", null, {x: \"a\"}, []]"]}));
    rep.extra.insert("deviation_bound".into(), json!(bound));
    rep.extra.insert("answer_alphabet".into(), json!(adv_answers.iter().map(|a| a.as_ref().map(|v| v.show()).unwrap_or("absent".into())).collect::<Vec<_>>()));
    rep.rule = "conditions: every token string up to the length bound over 21 tokens, loaded over identifier bodies of every value kind; every loaded condition (distinct parse trees) and every rule of the shared universe x 16 switch sets (distinct optimised trees) x an adversarial document whose every find() answer is a choice point over the value-kind alphabet (answers need not be consistent), explored exhaustively up to the stated number of deviations from the default answer; plus or-groups of regexes that are heavy enough for their merged set to exceed the regex size limit; plus validate() over example lists of every YAML kind; plus every string up to the length bound over {a b . [ ] 0 1 - blank} as a field name (plain, inside a nested block, under all() and int()) matched unoptimised and fully optimised against five concrete documents in two representations through the crate's own Object::find. Oracle: no panic in optimise / matches / validate, and structurally every operand of and/or/not is a predicate and every identifier exists. non-trivial = loaded rule".into();
    rep.assumptions = vec!["objects inside the answer alphabet are fixed trees; the two adversarial-object answers make every get() on the returned object (and on the two objects of the returned array) a further choice point over the scalar and array answers".into()];
    // or-groups wider than the matrix key encoding thresholds: optimise / matches must not panic
    rep.stats.merge(crate::wide::run(tier.thorough(), true));
    rep.finish()
}
