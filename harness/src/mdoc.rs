//! Model documents: a boring value tree that keeps the Int/UInt/Float distinction, is itself a
//! hand-written `Object`/`Document`, and can be rendered into every supported representation.

use std::borrow::Cow;
use std::collections::HashMap;

use tau_engine::{AsValue, Object, Value};

#[derive(Clone, Debug, PartialEq)]
pub enum MVal {
    Null,
    Bool(bool),
    Int(i64),
    UInt(u64),
    Float(f64),
    Str(String),
    Arr(Vec<MVal>),
    Obj(MObj),
}

#[derive(Clone, Debug, PartialEq, Default)]
pub struct MObj(pub Vec<(String, MVal)>);

impl MObj {
    pub fn new() -> Self {
        MObj(vec![])
    }
    pub fn with(mut self, k: &str, v: MVal) -> Self {
        self.set(k, v);
        self
    }
    pub fn set(&mut self, k: &str, v: MVal) {
        if let Some(e) = self.0.iter_mut().find(|(kk, _)| kk == k) {
            e.1 = v;
        } else {
            self.0.push((k.to_string(), v));
        }
    }
    pub fn getm(&self, k: &str) -> Option<&MVal> {
        self.0.iter().find(|(kk, _)| kk == k).map(|(_, v)| v)
    }
}

pub fn s(x: &str) -> MVal {
    MVal::Str(x.to_string())
}
pub fn arr(v: Vec<MVal>) -> MVal {
    MVal::Arr(v)
}
pub fn obj(v: Vec<(&str, MVal)>) -> MVal {
    MVal::Obj(MObj(v.into_iter().map(|(k, v)| (k.to_string(), v)).collect()))
}

impl AsValue for MVal {
    fn as_value(&self) -> Value<'_> {
        match self {
            MVal::Null => Value::Null,
            MVal::Bool(b) => Value::Bool(*b),
            MVal::Int(i) => Value::Int(*i),
            MVal::UInt(u) => Value::UInt(*u),
            MVal::Float(f) => Value::Float(*f),
            MVal::Str(s) => Value::String(Cow::Borrowed(s)),
            MVal::Arr(a) => Value::Array(a),
            MVal::Obj(o) => Value::Object(o),
        }
    }
}

impl Object for MObj {
    fn get(&self, key: &str) -> Option<Value<'_>> {
        self.getm(key).map(|v| v.as_value())
    }
    fn keys(&self) -> Vec<Cow<'_, str>> {
        self.0.iter().map(|(k, _)| Cow::Borrowed(k.as_str())).collect()
    }
    fn len(&self) -> usize {
        self.0.len()
    }
}

// ---------------------------------------------------------------------------------------------
// printing (tagged, loss free) - used in replays and samples

impl MVal {
    pub fn show(&self) -> String {
        match self {
            MVal::Null => "null".into(),
            MVal::Bool(b) => b.to_string(),
            MVal::Int(i) => format!("{}i", i),
            MVal::UInt(u) => format!("{}u", u),
            MVal::Float(f) => format!("{:?}f", f),
            MVal::Str(s) => format!("{:?}", s),
            MVal::Arr(a) => format!(
                "[{}]",
                a.iter().map(|v| v.show()).collect::<Vec<_>>().join(", ")
            ),
            MVal::Obj(o) => o.show(),
        }
    }
}
impl MObj {
    pub fn show(&self) -> String {
        format!(
            "{{{}}}",
            self.0
                .iter()
                .map(|(k, v)| format!("{}: {}", k, v.show()))
                .collect::<Vec<_>>()
                .join(", ")
        )
    }
}

// ---------------------------------------------------------------------------------------------
// renderers

pub fn to_yaml(v: &MVal) -> serde_yaml::Value {
    use serde_yaml::Value as Y;
    match v {
        MVal::Null => Y::Null,
        MVal::Bool(b) => Y::Bool(*b),
        MVal::Int(i) => Y::Number((*i).into()),
        MVal::UInt(u) => Y::Number((*u).into()),
        MVal::Float(f) => Y::Number((*f).into()),
        MVal::Str(s) => Y::String(s.clone()),
        MVal::Arr(a) => Y::Sequence(a.iter().map(to_yaml).collect()),
        MVal::Obj(o) => Y::Mapping(to_yaml_map(o)),
    }
}
pub fn to_yaml_map(o: &MObj) -> serde_yaml::Mapping {
    let mut m = serde_yaml::Mapping::new();
    for (k, v) in &o.0 {
        m.insert(serde_yaml::Value::String(k.clone()), to_yaml(v));
    }
    m
}

/// None when the value is not representable in JSON (NaN / infinities).
pub fn to_json(v: &MVal) -> Option<serde_json::Value> {
    use serde_json::Value as J;
    Some(match v {
        MVal::Null => J::Null,
        MVal::Bool(b) => J::Bool(*b),
        MVal::Int(i) => J::Number((*i).into()),
        MVal::UInt(u) => J::Number((*u).into()),
        MVal::Float(f) => J::Number(serde_json::Number::from_f64(*f)?),
        MVal::Str(s) => J::String(s.clone()),
        MVal::Arr(a) => J::Array(a.iter().map(to_json).collect::<Option<Vec<_>>>()?),
        MVal::Obj(o) => J::Object(to_json_map(o)?),
    })
}
pub fn to_json_map(o: &MObj) -> Option<serde_json::Map<String, serde_json::Value>> {
    let mut m = serde_json::Map::new();
    for (k, v) in &o.0 {
        m.insert(k.clone(), to_json(v)?);
    }
    Some(m)
}

/// A node built only from std types whose `AsValue` adapters are the ones shipped by the engine.
pub enum StdNode {
    Unit(()),
    Bool(bool),
    I8(i8),
    I16(i16),
    I32(i32),
    I64(i64),
    ISize(isize),
    U8(u8),
    U16(u16),
    U32(u32),
    U64(u64),
    USize(usize),
    F32(f32),
    F64(f64),
    Str(String),
    OptNone(Option<String>),
    OptSome(Option<Box<StdNode>>),
    Vec(Vec<StdNode>),
    Map(HashMap<String, StdNode>),
}
impl AsValue for Box<StdNode> {
    fn as_value(&self) -> Value<'_> {
        (**self).as_value()
    }
}
impl AsValue for StdNode {
    fn as_value(&self) -> Value<'_> {
        match self {
            StdNode::Unit(x) => x.as_value(),
            StdNode::Bool(x) => x.as_value(),
            StdNode::I8(x) => x.as_value(),
            StdNode::I16(x) => x.as_value(),
            StdNode::I32(x) => x.as_value(),
            StdNode::I64(x) => x.as_value(),
            StdNode::ISize(x) => x.as_value(),
            StdNode::U8(x) => x.as_value(),
            StdNode::U16(x) => x.as_value(),
            StdNode::U32(x) => x.as_value(),
            StdNode::U64(x) => x.as_value(),
            StdNode::USize(x) => x.as_value(),
            StdNode::F32(x) => x.as_value(),
            StdNode::F64(x) => x.as_value(),
            StdNode::Str(x) => x.as_value(),
            StdNode::OptNone(x) => x.as_value(),
            StdNode::OptSome(x) => x.as_value(),
            StdNode::Vec(x) => x.as_value(),
            StdNode::Map(x) => x.as_value(),
        }
    }
}

/// Renders through the *narrowest* std type that holds the value exactly (`variant` rotates the
/// choice among the types that fit so that every adapter is exercised).
pub fn to_std(v: &MVal, variant: usize) -> StdNode {
    match v {
        MVal::Null => {
            if variant % 2 == 0 {
                StdNode::Unit(())
            } else {
                StdNode::OptNone(None)
            }
        }
        MVal::Bool(b) => StdNode::Bool(*b),
        MVal::Int(i) => {
            let i = *i;
            let mut opts: Vec<StdNode> = vec![StdNode::I64(i), StdNode::ISize(i as isize)];
            if i >= i32::MIN as i64 && i <= i32::MAX as i64 {
                opts.push(StdNode::I32(i as i32));
            }
            if i >= i16::MIN as i64 && i <= i16::MAX as i64 {
                opts.push(StdNode::I16(i as i16));
            }
            if i >= i8::MIN as i64 && i <= i8::MAX as i64 {
                opts.push(StdNode::I8(i as i8));
            }
            let n = opts.len();
            opts.swap_remove(variant % n)
        }
        MVal::UInt(u) => {
            let u = *u;
            let mut opts: Vec<StdNode> = vec![StdNode::U64(u), StdNode::USize(u as usize)];
            if u <= u32::MAX as u64 {
                opts.push(StdNode::U32(u as u32));
            }
            if u <= u16::MAX as u64 {
                opts.push(StdNode::U16(u as u16));
            }
            if u <= u8::MAX as u64 {
                opts.push(StdNode::U8(u as u8));
            }
            let n = opts.len();
            opts.swap_remove(variant % n)
        }
        MVal::Float(f) => {
            let g = *f as f32;
            if variant % 2 == 1 && ((g as f64) == *f || f.is_nan()) {
                StdNode::F32(g)
            } else {
                StdNode::F64(*f)
            }
        }
        MVal::Str(s) => {
            if variant % 3 == 2 {
                StdNode::OptSome(Some(Box::new(StdNode::Str(s.clone()))))
            } else {
                StdNode::Str(s.clone())
            }
        }
        MVal::Arr(a) => StdNode::Vec(a.iter().map(|x| to_std(x, variant)).collect()),
        MVal::Obj(o) => StdNode::Map(to_std_map(o, variant)),
    }
}
pub fn to_std_map(o: &MObj, variant: usize) -> HashMap<String, StdNode> {
    o.0.iter()
        .map(|(k, v)| (k.clone(), to_std(v, variant)))
        .collect()
}

/// JSON-ish rendering for evidence samples.
pub fn to_sample(v: &MObj) -> serde_json::Value {
    serde_json::Value::String(v.show())
}
