//! C04: loading arbitrary text returns a rule or an error - never a panic, overflow or loop.

use std::sync::atomic::{AtomicU64, Ordering};
use std::sync::Arc;
use std::time::{Duration, Instant};

use rayon::prelude::*;
use serde_json::json;
use serde_yaml::Value as Y;
use tau_engine::core::parser::{parse_identifier, IdentifierParser, Tokeniser};
use tau_engine::Rule;

use crate::report::{catch, Report, Stats, Tier, Violation};

// ---------------------------------------------------------------------------------------------
// shortlex enumeration of strings over an alphabet

pub fn count_upto(n: usize, maxlen: usize) -> u64 {
    let mut t = 0u64;
    let mut p = 1u64;
    for _ in 0..=maxlen {
        t += p;
        p *= n as u64;
    }
    t
}
pub fn nth_string(alpha: &[&str], mut idx: u64) -> String {
    let n = alpha.len() as u64;
    let mut len = 0;
    let mut block = 1u64;
    while idx >= block {
        idx -= block;
        block *= n;
        len += 1;
    }
    let mut digits = vec![0usize; len];
    for d in digits.iter_mut().rev() {
        *d = (idx % n) as usize;
        idx /= n;
    }
    digits.iter().map(|d| alpha[*d]).collect()
}

// ---------------------------------------------------------------------------------------------
// watchdog: every worker publishes (family, index, time); a case that does not return within
// the limit is reported with its input and the process exits 1 (the worker cannot be recovered)

pub struct Watch {
    slots: Vec<(AtomicU64, AtomicU64, AtomicU64)>, // family, index, started-ms (0 = idle)
    start: Instant,
}
impl Watch {
    pub fn new() -> Arc<Watch> {
        let n = rayon::current_num_threads() + 1;
        Arc::new(Watch {
            slots: (0..n)
                .map(|_| (AtomicU64::new(0), AtomicU64::new(0), AtomicU64::new(0)))
                .collect(),
            start: Instant::now(),
        })
    }
    fn slot(&self) -> &(AtomicU64, AtomicU64, AtomicU64) {
        let i = rayon::current_thread_index().unwrap_or(self.slots.len() - 1);
        &self.slots[i]
    }
    pub fn enter(&self, family: u64, index: u64) {
        let s = self.slot();
        s.0.store(family, Ordering::Relaxed);
        s.1.store(index, Ordering::Relaxed);
        s.2.store(self.start.elapsed().as_millis() as u64 + 1, Ordering::Release);
    }
    pub fn leave(&self) {
        self.slot().2.store(0, Ordering::Release);
    }
    pub fn spawn(self: &Arc<Self>, limit: Duration, describe: Arc<dyn Fn(u64, u64) -> String + Send + Sync>) {
        let w = self.clone();
        std::thread::spawn(move || loop {
            std::thread::sleep(Duration::from_millis(500));
            let now = w.start.elapsed().as_millis() as u64;
            for s in &w.slots {
                let t = s.2.load(Ordering::Acquire);
                if t != 0 && now > t + limit.as_millis() as u64 {
                    let what = describe(s.0.load(Ordering::Relaxed), s.1.load(Ordering::Relaxed));
                    let dir = format!("{}/replays/C04", crate::report::VERIF_DIR);
                    let _ = std::fs::create_dir_all(&dir);
                    let path = format!("{}/hang.json", dir);
                    let _ = std::fs::write(
                        &path,
                        serde_json::to_string_pretty(&json!({"kind":"load-hang","input":what,"property":"C04"})).unwrap(),
                    );
                    println!("VIOLATION property=C04 replay={} signature=\"does-not-terminate\" witness={}", path, what);
                    std::process::exit(1);
                }
            }
        });
    }
}

const PAT_ALPHA: [&str; 17] = [
    "i", "?", "*", "\"", "'", "=", "<", ">", ".", "-", "1", "a", "A", "é", "(", "\\", " ",
];
const COND_ALPHA: [&str; 31] = [
    "a", "n", "d", "o", "r", "t", "l", "f", "i", "s", " ", "\t", "(", ")", ",", "=", "<", ">", "-",
    ".", "1", "é", "½", "[", "]", "#", "_", "A", "\u{b}", "\n", "\u{a0}",
];
const TOKENS: [&str; 21] = [
    "A", "B", "and ", "or ", "not ", "(", ")", "all(", "of(", "int(", "flt(", "str(", "not(", "1", "1.5",
    "==", "<", ">=", ",", "f", " ",
];

fn skeleton(cond: &str) -> Y {
    let txt = format!(
        "detection:\n  A: {{f: x}}\n  B: [{{g: 1}}, {{f: ['a*', '?b']}}]\n  a: {{f: x}}\n  n: {{f: x}}\n  d: {{f: x}}\n  o: {{f: x}}\n  r: {{f: x}}\n  t: {{f: x}}\n  l: {{f: x}}\n  f: {{f: x}}\n  i: {{f: x}}\n  s: {{f: x}}\n  condition: {}\ntrue_positives: []\ntrue_negatives: []\n",
        serde_json::to_string(cond).unwrap()
    );
    serde_yaml::from_str(&txt).unwrap()
}

fn set_condition(v: &mut Y, cond: &str) {
    if let Some(Y::Mapping(d)) = v.get_mut("detection") {
        d.insert(Y::String("condition".into()), Y::String(cond.to_string()));
    }
}

fn sig_of_panic(layer: &str, msg: &str) -> String {
    let m: String = msg.chars().take(60).collect();
    format!("panic:{}:{}", layer, m)
}

fn load_value(v: Y) -> Result<bool, String> {
    catch(move || Rule::from_value(v).is_ok())
}

// ---------------------------------------------------------------------------------------------

fn run_family(
    rep: &mut Report,
    watch: &Arc<Watch>,
    family: u64,
    total: u64,
    f: impl Fn(u64, &mut Stats) + Sync,
) {
    let chunk = 8192u64;
    let chunks: Vec<u64> = (0..(total + chunk - 1) / chunk).collect();
    let parts: Vec<Stats> = chunks
        .par_iter()
        .map(|c| {
            let mut st = Stats::default();
            let lo = c * chunk;
            let hi = (lo + chunk).min(total);
            for i in lo..hi {
                watch.enter(family, i);
                f(i, &mut st);
                watch.leave();
            }
            st
        })
        .collect();
    for p in parts {
        rep.stats.merge(p);
    }
}

pub fn depth_cases() -> Vec<(&'static str, String)> {
    let n = 64;
    let rule = |body: &str, cond: &str| {
        format!(
            "detection:\n  A: {}\n  condition: {}\ntrue_positives: []\ntrue_negatives: []\n",
            body,
            serde_json::to_string(cond).unwrap()
        )
    };
    let mut nested_map = String::from("x");
    for _ in 0..n {
        nested_map = format!("{{f: {}}}", nested_map);
    }
    let mut nested_seq = String::from("x");
    for _ in 0..n {
        nested_seq = format!("[{}]", nested_seq);
    }
    let mut nested_mapseq = String::from("{f: x}");
    for _ in 0..n / 2 {
        nested_mapseq = format!("{{f: [{}]}}", nested_mapseq);
    }
    vec![
        ("parens", rule("{f: x}", &format!("{}A{}", "(".repeat(n), ")".repeat(n)))),
        ("nots", rule("{f: x}", &format!("{}A", "not ".repeat(n)))),
        ("not-parens", rule("{f: x}", &format!("{}A{}", "not (".repeat(n), ")".repeat(n)))),
        ("nested-mappings", rule(&nested_map, "A")),
        ("nested-sequences", rule(&format!("{{f: {}}}", nested_seq), "A")),
        ("nested-map-seq", rule(&nested_mapseq, "A")),
        ("and-chain-64", rule("{f: x}", &vec!["A"; 64].join(" and "))),
        ("or-chain-64", rule("{f: x}", &vec!["A"; 64].join(" or "))),
        ("mixed-chain-64", rule("{f: x}", &vec!["A and A or not A"; 21].join(" and "))),
        ("unbalanced-open", rule("{f: x}", &"(".repeat(n))),
        ("unbalanced-close", rule("{f: x}", &format!("A{}", ")".repeat(n)))),
        ("long-list", rule(&format!("{{f: [{}]}}", vec!["'*a*'"; 3000].join(", ")), "A")),
    ]
}

/// child process: loads every depth case on a thread with the default stack size
pub fn depth_child(only: &str) -> i32 {
    for (name, yaml) in depth_cases() {
        if name != only {
            continue;
        }
        let h = std::thread::Builder::new()
            .spawn(move || {
                let r = catch(|| Rule::from_str(&yaml).map(|r| {
                    // a loaded rule is also optimised and matched once: recursion depth follows
                    let r = r.optimise(tau_engine::Optimisations::default());
                    let d = crate::mdoc::MObj::new().with("f", crate::mdoc::s("x"));
                    r.matches(&d)
                }).is_ok());
                r
            })
            .unwrap();
        match h.join() {
            Ok(Ok(loaded)) => println!("ok {} loaded={}", name, loaded),
            Ok(Err(p)) => println!("panic {} {}", name, p),
            Err(_) => println!("panic {} (thread)", name),
        }
    }
    0
}

fn shapes() -> Vec<(&'static str, &'static str)> {
    vec![
        ("null", "null"),
        ("true", "true"),
        ("zero", "0"),
        ("neg", "-1"),
        ("float", "1.5"),
        ("nan", ".nan"),
        ("inf", ".inf"),
        ("u64max", "18446744073709551615"),
        ("empty-string", "''"),
        ("string", "x"),
        ("star", "'*'"),
        ("bad-regex", "'?('"),
        ("lone-quote", "\"'\""),
        ("i", "i"),
        ("empty-seq", "[]"),
        ("seq-null", "[null]"),
        ("seq-string", "[x]"),
        ("seq-int", "[1]"),
        ("seq-seq", "[[]]"),
        ("seq-empty-map", "[{}]"),
        ("seq-mixed", "[x, 1, true, null]"),
        ("seq-map", "[{f: x}]"),
        ("empty-map", "{}"),
        ("map", "{f: x}"),
        ("int-key", "{1: x}"),
        ("null-key", "{null: x}"),
        ("bool-key", "{true: x}"),
        ("seq-key", "{[a]: x}"),
        ("deep-map", "{f: {g: {h: x}}}"),
        ("map-seq-map", "{f: [x, {g: y}]}"),
        ("tagged-scalar", "!foo x"),
        ("tagged-map", "!foo {f: x}"),
        ("keyword", "and"),
        ("dangling", "'A and'"),
        ("match-key-scalar", "{'all(f)': x}"),
        ("of-key", "{'of(f, 1)': [x]}"),
        ("int-float", "{'int(f)': 1.5}"),
        ("not-nested", "{'not(f)': {g: x}}"),
        ("dotted-key", "{'f.g[0]': x}"),
        ("empty-key", "{'': x}"),
        ("cond-key", "{condition: x}"),
        ("quant-mixed", "{'all(f)': [x, 1]}"),
        ("merge-map", "{'<<': {f: x}}"),
        ("merge-seq", "{'<<': [{f: x}, {g: y}], f: z}"),
        ("merge-scalar", "{'<<': 1}"),
        ("control-chars", "\"a\\0b\\x7f\\u0085\\ufeff\""),
        ("huge-int-string", "'=99999999999999999999999999'"),
        ("huge-float-string", "'>=1e999.'"),
    ]
}

fn positions(v: &Y, path: &mut Vec<String>, out: &mut Vec<Vec<String>>) {
    out.push(path.clone());
    match v {
        Y::Mapping(m) => {
            for (k, x) in m {
                if let Some(k) = k.as_str() {
                    path.push(k.to_string());
                    positions(x, path, out);
                    path.pop();
                }
            }
        }
        Y::Sequence(s) => {
            for (i, x) in s.iter().enumerate() {
                path.push(format!("#{}", i));
                positions(x, path, out);
                path.pop();
            }
        }
        _ => {}
    }
}

fn replace_at(v: &mut Y, path: &[String], new: &Y) -> bool {
    if path.is_empty() {
        *v = new.clone();
        return true;
    }
    let head = &path[0];
    if let Some(i) = head.strip_prefix('#') {
        let i: usize = i.parse().unwrap();
        match v {
            Y::Sequence(s) if i < s.len() => replace_at(&mut s[i], &path[1..], new),
            _ => false,
        }
    } else {
        match v {
            Y::Mapping(m) => match m.get_mut(Y::String(head.clone())) {
                Some(x) => replace_at(x, &path[1..], new),
                None => false,
            },
            _ => false,
        }
    }
}

pub fn run(tier: Tier) -> i32 {
    let mut rep = Report::new("C04", tier);
    let th = tier.thorough();
    let watch = Watch::new();
    let pat_len = if th { 5 } else { 4 };
    let cond_len = if th { 5 } else { 4 };
    let tok_len = if th { 5 } else { 4 };
    let describe: Arc<dyn Fn(u64, u64) -> String + Send + Sync> = Arc::new(move |fam, idx| match fam {
        1 => format!("pattern {:?}", nth_string(&PAT_ALPHA, idx)),
        2 => format!("condition/key {:?}", nth_string(&COND_ALPHA, idx)),
        3 => format!("token condition {:?}", nth_string(&TOKENS, idx)),
        5 => format!("multi-byte offset string #{}", idx),
        _ => format!("family {} index {}", fam, idx),
    });
    watch.spawn(Duration::from_secs(10), describe);

    // (1) pattern strings, alone (the i prefix is part of the alphabet)
    let total = count_upto(PAT_ALPHA.len(), pat_len);
    run_family(&mut rep, &watch, 1, total, |i, st| {
        let p = nth_string(&PAT_ALPHA, i);
        let p2 = p.clone();
        let r = catch(move || p2.into_identifier().is_ok());
        st.transitions += 1;
        st.evaluations += 1;
        st.states += 1;
        match r {
            Ok(ok) => {
                if ok {
                    st.count("patterns_accepted", 1);
                }
            }
            Err(msg) => st.push_violation(Violation {
                signature: sig_of_panic("into_identifier", &msg),
                witness: format!("into_identifier({:?}) panics: {}", p, msg),
                replay: json!({"kind":"pattern","pattern":p}),
            }),
        }
    });
    rep.stats.count("pattern_strings", total);

    // (1b) patterns inside lists, through the loader (members <= 2 chars; all pairs, strided triples)
    let members: Vec<String> = (0..count_upto(PAT_ALPHA.len(), 2)).map(|i| nth_string(&PAT_ALPHA, i)).collect();
    let m = members.len() as u64;
    let base = skeleton("A");
    let list_total = m * m;
    run_family(&mut rep, &watch, 4, list_total, |i, st| {
        let a = &members[(i / m) as usize];
        let b = &members[(i % m) as usize];
        for key in ["f", "all(f)", "str(f)"] {
            if key != "f" && (i % 7 != 0) {
                continue;
            }
            let mut v = base.clone();
            let list = Y::Sequence(vec![Y::String(a.clone()), Y::String(b.clone()), Y::String("a".into())]);
            let mut mm = serde_yaml::Mapping::new();
            mm.insert(Y::String(key.into()), list);
            replace_at(&mut v, &["detection".to_string(), "A".to_string()], &Y::Mapping(mm));
            let r = load_value(v);
            st.transitions += 1;
            st.evaluations += 1;
            st.states += 1;
            if let Err(msg) = r {
                st.push_violation(Violation {
                    signature: sig_of_panic("load-list", &msg),
                    witness: format!("loading A: {{{}: [{:?}, {:?}, a]}} panics: {}", key, a, b, msg),
                    replay: json!({"kind":"load","rule_yaml": format!("detection:\n  A: {{{}: [{}, {}, a]}}\n  condition: A\ntrue_positives: []\ntrue_negatives: []\n", serde_json::to_string(key).unwrap(), serde_json::to_string(a).unwrap(), serde_json::to_string(b).unwrap())}),
                });
            }
        }
    });
    rep.stats.count("pattern_lists", list_total);

    // (1c) lists made of ONE pattern only (alone and repeated): nothing else in the list can put a
    //      needle into the other batch; patterns up to length 3 (thorough 4)
    let single_total = count_upto(PAT_ALPHA.len(), if th { 4 } else { 3 });
    run_family(&mut rep, &watch, 4, single_total, |i, st| {
        let p = nth_string(&PAT_ALPHA, i);
        for key in ["f", "all(f)", "of(f, 1)", "str(f)"] {
            for n in 1..=2usize {
                let mut v = base.clone();
                let list = Y::Sequence(vec![Y::String(p.clone()); n]);
                let mut mm = serde_yaml::Mapping::new();
                mm.insert(Y::String(key.into()), list);
                replace_at(&mut v, &["detection".to_string(), "A".to_string()], &Y::Mapping(mm));
                let r = load_value(v);
                st.transitions += 1;
                st.evaluations += 1;
                st.states += 1;
                if let Err(msg) = r {
                    st.push_violation(Violation {
                        signature: sig_of_panic("load-list", &msg),
                        witness: format!("loading A: {{{}: {:?} x{}}} panics: {}", key, p, n, msg),
                        replay: json!({"kind":"load","rule_yaml": format!("detection:\n  A: {{{}: [{}]}}\n  condition: A\ntrue_positives: []\ntrue_negatives: []\n", serde_json::to_string(key).unwrap(), vec![serde_json::to_string(&p).unwrap(); n].join(", "))}),
                    });
                }
            }
        }
    });
    rep.stats.count("single_pattern_lists", single_total);

    // (2) condition strings: tokeniser alone, as a condition through the loader, as a mapping key
    let total = count_upto(COND_ALPHA.len(), cond_len);
    run_family(&mut rep, &watch, 2, total, |i, st| {
        let c = nth_string(&COND_ALPHA, i);
        let c1 = c.clone();
        let r = catch(move || c1.tokenise().is_ok());
        st.transitions += 1;
        st.states += 1;
        st.evaluations += 1;
        let tokenises = match r {
            Ok(ok) => ok,
            Err(msg) => {
                st.push_violation(Violation {
                    signature: sig_of_panic("tokenise", &msg),
                    witness: format!("tokenise({:?}) panics: {}", c, msg),
                    replay: json!({"kind":"tokenise","text":c}),
                });
                false
            }
        };
        if tokenises {
            st.count("conditions_that_tokenise", 1);
            // loader
            let mut v = base.clone();
            set_condition(&mut v, &c);
            st.transitions += 1;
            match load_value(v) {
                Ok(true) => st.count("conditions_accepted", 1),
                Ok(false) => {}
                Err(msg) => st.push_violation(Violation {
                    signature: sig_of_panic("load-condition", &msg),
                    witness: format!("loading condition {:?} panics: {}", c, msg),
                    replay: json!({"kind":"condition","condition":c}),
                }),
            }
            // mapping key (re-tokenised and parsed by the identifier parser)
            for shape in 0..3 {
                let val = match shape {
                    0 => Y::String("x".into()),
                    1 => Y::Sequence(vec![Y::String("x".into())]),
                    _ => Y::Sequence(vec![Y::String("x".into()), Y::String("*y".into())]),
                };
                let mut mm = serde_yaml::Mapping::new();
                mm.insert(Y::String(c.clone()), val);
                let y = Y::Mapping(mm);
                st.transitions += 1;
                match catch(|| parse_identifier(&y).is_ok()) {
                    Ok(true) => st.count("keys_accepted", 1),
                    Ok(false) => {}
                    Err(msg) => st.push_violation(Violation {
                        signature: sig_of_panic("parse_identifier-key", &msg),
                        witness: format!("parse_identifier({{{:?}: ..}}) panics: {}", c, msg),
                        replay: json!({"kind":"key","key":c,"shape":shape}),
                    }),
                }
            }
        }
    });
    rep.stats.count("condition_strings", total);

    // (3) token-level conditions through the loader
    let total = count_upto(TOKENS.len(), tok_len);
    run_family(&mut rep, &watch, 3, total, |i, st| {
        let c = nth_string(&TOKENS, i);
        let mut v = base.clone();
        set_condition(&mut v, &c);
        st.transitions += 1;
        st.states += 1;
        st.evaluations += 1;
        match load_value(v) {
            Ok(true) => st.count("token_conditions_accepted", 1),
            Ok(false) => {}
            Err(msg) => st.push_violation(Violation {
                signature: sig_of_panic("load-condition", &msg),
                witness: format!("loading condition {:?} panics: {}", c, msg),
                replay: json!({"kind":"condition","condition":c}),
            }),
        }
    });
    rep.stats.count("token_conditions", total);

    // (3b) a multi-byte character at every byte offset up to 16 after the start of a word /
    //      keyword / number, through every textual layer (strings longer than the exhaustive bound)
    {
        let heads = ["", "a", "and ", "not ", "int(", "all(", "of(", "str(", "string(", "1", "A and ", "(", "i", "?", "*", ">=", "flt(a) == ", "a.b[0]"];
        let pads = ["a", "n", " ", "1", "("];
        let wide = ["é", "日", "😀", "\u{301}"];
        let tails = ["", "a", " a", ")", " and A", "*"];
        let mut texts: Vec<String> = vec![];
        for h in heads {
            for p in pads {
                for k in 0..=16usize {
                    for w in wide {
                        for t in tails {
                            texts.push(format!("{}{}{}{}", h, p.repeat(k), w, t));
                        }
                    }
                }
            }
        }
        let total = texts.len() as u64;
        let texts = std::sync::Arc::new(texts);
        let t2 = texts.clone();
        let base = base.clone();
        run_family(&mut rep, &watch, 5, total, move |i, st| {
            let c = t2[i as usize].clone();
            st.states += 1;
            st.evaluations += 1;
            st.transitions += 5;
            let mut bad = |layer: &str, r: Result<bool, String>, st: &mut Stats| {
                if let Err(msg) = r {
                    st.push_violation(Violation {
                        signature: sig_of_panic(layer, &msg),
                        witness: format!("{} on {:?} panics: {}", layer, c, msg),
                        replay: json!({"kind":"tokenise","text":c}),
                    });
                }
            };
            let c1 = c.clone();
            bad("tokenise", catch(move || c1.tokenise().is_ok()), st);
            let c2 = c.clone();
            bad("into_identifier", catch(move || c2.into_identifier().is_ok()), st);
            let mut v = base.clone();
            set_condition(&mut v, &c);
            bad("load-condition", load_value(v), st);
            let mut mm = serde_yaml::Mapping::new();
            mm.insert(Y::String(c.clone()), Y::String("x".into()));
            let y = Y::Mapping(mm);
            bad("parse_identifier-key", catch(|| parse_identifier(&y).is_ok()), st);
            let mut v = base.clone();
            let mut mm = serde_yaml::Mapping::new();
            mm.insert(Y::String("f".into()), Y::Sequence(vec![Y::String(c.clone()), Y::String("a*".into())]));
            replace_at(&mut v, &["detection".to_string(), "A".to_string()], &Y::Mapping(mm));
            bad("load-list", load_value(v), st);
        });
        rep.stats.count("multibyte_offset_strings", total);
    }

    // (3c) long and odd inputs (a handful, far beyond the exhaustive length bound)
    {
        let n = 4_000;
        let odd: Vec<String> = vec![
            "a".repeat(n),
            format!("{}A", " ".repeat(n)),
            format!("A{}", "\t".repeat(n)),
            "1".repeat(400),
            format!("1.{}", "1".repeat(400)),
            "1.1.1".into(),
            "..".into(),
            "é".repeat(2_000),
            format!("?{}", "a".repeat(2_000)),
            format!("*{}*", "a".repeat(n)),
            format!("i{}", "A".repeat(n)),
            format!("?{}", "(a|b)*".repeat(200)),
            format!("?{}", "a{1000}".repeat(20)),
            format!("{}a", "(".repeat(64)),
            format!("a{}", ")".repeat(2_000)),
            "a\u{0}b".into(),
            // numeric patterns at the edges of the integer and double ranges
            ">9223372036854775807".into(),
            ">=9223372036854775807".into(),
            "<-9223372036854775808".into(),
            "<=-9223372036854775808".into(),
            "=9223372036854775808".into(),
            "=-9223372036854775809".into(),
            "i>9223372036854775807".into(),
            ">1.7976931348623157e308".into(),
            ">1e400".into(),
            "<-1e400".into(),
            ">-0".into(),
            ">=-0.0".into(),
            "=+1".into(),
            ">1.".into(),
            ">.5".into(),
            ">1e".into(),
            ">0x10".into(),
            "A\u{b}and\u{c}B".into(),
            "A\rand\nB".into(),
            "\u{b}".into(),
            "\u{c}A".into(),
            "A\u{2028}and\u{2029}B".into(),
            "A\u{3000}and B".into(),
            "\u{feff}A".into(),
            "A\u{85}and B".into(),
            "A\u{a0}and\u{a0}B".into(),
            "all(\u{0})".into(),
            format!("of(A, {})", "9".repeat(30)),
            "of(A, -1)".into(),
            "of(A, 1.5)".into(),
            format!("A[{}]", "9".repeat(30)),
            "a[18446744073709551616].b".into(),
            "a[-0]".into(),
            "a[+1]".into(),
            "a[ 1]".into(),
            "a[1".into(),
            "a]1[".into(),
            "[0]".into(),
            ".a..b.".into(),
        ];
        for c in odd {
            rep.stats.states += 1;
            rep.stats.evaluations += 1;
            rep.stats.transitions += 5;
            let mut results: Vec<(&str, Result<bool, String>)> = vec![];
            let c1 = c.clone();
            results.push(("tokenise", catch(move || c1.tokenise().is_ok())));
            let c2 = c.clone();
            results.push(("into_identifier", catch(move || c2.into_identifier().is_ok())));
            let mut v = base.clone();
            set_condition(&mut v, &c);
            results.push(("load-condition", load_value(v)));
            let mut mm = serde_yaml::Mapping::new();
            mm.insert(Y::String(c.clone()), Y::String("x".into()));
            let y = Y::Mapping(mm);
            results.push(("parse_identifier-key", catch(|| parse_identifier(&y).is_ok())));
            let mut v = base.clone();
            let mut mm = serde_yaml::Mapping::new();
            mm.insert(Y::String("f".into()), Y::Sequence(vec![Y::String(c.clone()), Y::String("a*".into())]));
            replace_at(&mut v, &["detection".to_string(), "A".to_string()], &Y::Mapping(mm));
            // a loaded rule with the odd pattern is also matched once
            let loaded = catch(move || match Rule::from_value(v) {
                Ok(r) => {
                    let d = crate::mdoc::MObj::new().with("f", crate::mdoc::s("aaa"));
                    let _ = r.matches(&d);
                    let _ = r.optimise(tau_engine::Optimisations::default()).matches(&d);
                    true
                }
                Err(_) => false,
            });
            results.push(("load-list+match", loaded));
            // and as a document key given to find()
            let c3 = c.clone();
            results.push((
                "find",
                catch(move || {
                    let d = crate::mdoc::MObj::new().with("a", crate::mdoc::arr(vec![crate::mdoc::s("x")]));
                    tau_engine::Object::find(&d, &c3).is_some()
                }),
            ));
            for (layer, r) in results {
                if let Err(msg) = r {
                    let short: String = c.chars().take(40).collect();
                    rep.stats.push_violation(Violation {
                        signature: sig_of_panic(layer, &msg),
                        witness: format!("{} on {:?}.. ({} bytes) panics: {}", layer, short, c.len(), msg),
                        replay: json!({"kind":"tokenise","text":c}),
                    });
                }
            }
        }
    }

    // (3d) regexes that compile on their own but are heavy enough that a *set* of them can exceed
    //      the regex crate's compiled size limit: every list of 2-3 of them under k / all(k) / of(k, 1)
    {
        let heavy: Vec<String> = vec![
            "?\\pL{50}".into(), "?\\pL{150}".into(), "?x\\pL{150}".into(), "?\\w{120}".into(), "i?\\pL{150}".into(), "i?y\\pL{150}".into(),
            "?\\pL{300}".into(), "?[^a]{400}".into(), "?a".into(), "a*".into(),
        ];
        let mut lists: Vec<Vec<String>> = vec![];
        for a in &heavy {
            for b in &heavy {
                lists.push(vec![a.clone(), b.clone()]);
                if th {
                    for c in heavy.iter().take(6) {
                        lists.push(vec![a.clone(), b.clone(), c.clone()]);
                    }
                }
            }
        }
        rep.stats.count("heavy_regex_lists", lists.len() as u64);
        let results: Vec<Option<(String, String, String)>> = lists
            .par_iter()
            .flat_map(|l| ["k", "all(k)", "of(k, 1)"].into_par_iter().map(move |key| (l, key)))
            .map(|(l, key)| {
                let mut v = base.clone();
                let mut mm = serde_yaml::Mapping::new();
                mm.insert(Y::String(key.into()), Y::Sequence(l.iter().map(|x| Y::String(x.clone())).collect()));
                replace_at(&mut v, &["detection".to_string(), "A".to_string()], &Y::Mapping(mm));
                let r = catch(move || match Rule::from_value(v) {
                    Ok(r) => {
                        let d = crate::mdoc::MObj::new().with("k", crate::mdoc::s("aaa"));
                        let _ = r.matches(&d);
                        let _ = r.optimise(tau_engine::Optimisations::default()).matches(&d);
                        true
                    }
                    Err(_) => false,
                });
                r.err().map(|msg| (format!("{}: {:?}", key, l), sig_of_panic("load-heavy-regex-list", &msg), msg))
            })
            .collect();
        for r in results {
            rep.stats.states += 1;
            rep.stats.evaluations += 1;
            rep.stats.transitions += 3;
            rep.stats.traces += 1;
            if let Some((what, sig, msg)) = r {
                rep.stats.push_violation(Violation {
                    signature: sig,
                    witness: format!("loading / matching {} panics: {}", what, msg),
                    replay: json!({"kind":"optimise","rule_yaml":format!("detection:\n  A: {{{}}}\n  condition: A\ntrue_positives: []\ntrue_negatives: []\n", what),"sw_bits":15,"hash_order_choices":[]}),
                });
            }
        }
    }

    // (4) YAML shapes at every node position (thorough: every pair of positions)
    let skel: Y = serde_yaml::from_str(
        "detection:\n  A: {f: x, g: [x, '*y'], n: {h: x}}\n  B: [{f: x}, {'all(g)': [a, b]}]\n  condition: A and B\ntrue_positives: [{f: x}]\ntrue_negatives: []\noptimised: false\n",
    )
    .unwrap();
    let mut pos = vec![];
    positions(&skel, &mut vec![], &mut pos);
    let shp: Vec<(&str, Y)> = shapes()
        .into_iter()
        .map(|(n, t)| (n, serde_yaml::from_str::<Y>(t).unwrap_or(Y::Null)))
        .collect();
    let mut jobs: Vec<Vec<(usize, usize)>> = vec![];
    for p in 0..pos.len() {
        for s in 0..shp.len() {
            jobs.push(vec![(p, s)]);
        }
    }
    if th {
        for p in 0..pos.len() {
            for q in (p + 1)..pos.len() {
                for s in 0..shp.len() {
                    for t in 0..shp.len() {
                        jobs.push(vec![(p, s), (q, t)]);
                    }
                }
            }
        }
    }
    let parts: Vec<Stats> = jobs
        .par_iter()
        .map(|job| {
            let mut st = Stats::default();
            let mut v = skel.clone();
            let mut desc = vec![];
            // apply deeper positions first so that paths stay valid
            let mut j = job.clone();
            j.sort_by_key(|(p, _)| std::cmp::Reverse(pos[*p].len()));
            for (p, s) in &j {
                replace_at(&mut v, &pos[*p], &shp[*s].1);
                desc.push(format!("{}:={}", pos[*p].join("/"), shp[*s].0));
            }
            st.states += 1;
            st.evaluations += 1;
            st.transitions += 2;
            let text = serde_yaml::to_string(&v).unwrap_or_default();
            let v2 = v.clone();
            let a = load_value(v2);
            let t2 = text.clone();
            let b = catch(move || Rule::from_str(&t2).is_ok());
            if matches!(a, Ok(true)) {
                st.count("shaped_rules_accepted", 1);
            }
            for (layer, r) in [("from_value", a), ("from_str", b)] {
                if let Err(msg) = r {
                    st.push_violation(Violation {
                        signature: sig_of_panic(&format!("load-shape-{}", layer), &msg),
                        witness: format!("{} with {} panics: {}", layer, desc.join(", "), msg),
                        replay: json!({"kind":"load","rule_yaml":text}),
                    });
                }
            }
            st
        })
        .collect();
    for p in parts {
        rep.stats.merge(p);
    }
    rep.stats.count("shape_cases", jobs.len() as u64);

    // (4b) long multi-byte payloads at every node position. Error values quote the offending
    // YAML; anything that shortens, pads or slices such text by a byte count meets a character
    // boundary only for some alignments, so every payload comes with 0-3 ASCII characters in
    // front of a run of 2-, 3- or 4-byte characters (all residues of any cut position), in
    // lengths on both sides of 256 / 1024 / 4096 bytes, as a scalar, inside sequences, as a key
    // and next to a non-string key.
    {
        let lens: &[usize] = if th { &[60, 100, 130, 200, 260, 300, 520, 600, 1030, 1100, 2100, 4100, 4200] } else { &[100, 130, 260, 520, 1100, 4200] };
        let mut payloads: Vec<String> = vec![];
        for c in ['é', '€', '😀', 'a'] {
            for pad in 0..4usize {
                for &l in lens {
                    let mut p = "x".repeat(pad);
                    while p.len() < l {
                        p.push(c);
                    }
                    payloads.push(p);
                }
            }
        }
        let mk: Vec<(&str, fn(&str) -> Y)> = vec![
            ("scalar", |p| Y::String(p.to_string())),
            ("[P]", |p| Y::Sequence(vec![Y::String(p.to_string())])),
            ("[P, {f: x}]", |p| Y::Sequence(vec![Y::String(p.to_string()), serde_yaml::from_str("{f: x}").unwrap()])),
            ("[[P]]", |p| Y::Sequence(vec![Y::Sequence(vec![Y::String(p.to_string())])])),
            ("{P: x}", |p| {
                let mut m = serde_yaml::Mapping::new();
                m.insert(Y::String(p.to_string()), Y::String("x".into()));
                Y::Mapping(m)
            }),
            ("{1: P}", |p| {
                let mut m = serde_yaml::Mapping::new();
                m.insert(Y::Number(1.into()), Y::String(p.to_string()));
                Y::Mapping(m)
            }),
            ("{f: P, 1.5: [P]}", |p| {
                let mut m = serde_yaml::Mapping::new();
                m.insert(Y::String("f".into()), Y::String(p.to_string()));
                m.insert(Y::Number(1.5.into()), Y::Sequence(vec![Y::String(p.to_string())]));
                Y::Mapping(m)
            }),
        ];
        let mut jobs: Vec<(usize, usize, usize)> = vec![];
        for p in 0..pos.len() {
            for k in 0..mk.len() {
                for q in 0..payloads.len() {
                    jobs.push((p, k, q));
                }
            }
        }
        let parts: Vec<Stats> = jobs
            .par_chunks(256)
            .map(|chunk| {
                let mut st = Stats::default();
                for &(p, k, q) in chunk {
                    let mut v = skel.clone();
                    replace_at(&mut v, &pos[p], &(mk[k].1)(&payloads[q]));
                    st.states += 1;
                    st.evaluations += 1;
                    st.transitions += 2;
                    let text = serde_yaml::to_string(&v).unwrap_or_default();
                    let a = load_value(v);
                    let t2 = text.clone();
                    let b = catch(move || Rule::from_str(&t2).is_ok());
                    if matches!(a, Ok(true)) {
                        st.count("long_payload_rules_accepted", 1);
                    }
                    for (layer, r) in [("from_value", a), ("from_str", b)] {
                        if let Err(msg) = r {
                            let first = payloads[q].chars().rev().next().unwrap_or('a');
                            st.push_violation(Violation {
                                signature: sig_of_panic(&format!("load-long-payload-{}", layer), &msg),
                                witness: format!("{} with {}:={} where P is {} bytes ending in {:?} panics: {}", layer, pos[p].join("/"), mk[k].0, payloads[q].len(), first, msg.chars().take(200).collect::<String>()),
                                replay: json!({"kind":"load","rule_yaml":text}),
                            });
                        }
                    }
                }
                st
            })
            .collect();
        for p in parts {
            rep.stats.merge(p);
        }
        rep.stats.count("long_payload_cases", jobs.len() as u64);
    }

    // (5) nesting depth 64, in a child process on threads with the default stack size
    let exe = std::env::current_exe().unwrap();
    for (name, yaml) in depth_cases() {
        let out = std::process::Command::new(&exe).arg("--c04-depth").arg(name).output();
        let o = match out {
            Ok(o) => o,
            Err(e) => {
                eprintln!("machinery error: cannot run the depth child: {}", e);
                return 2;
            }
        };
        let txt = String::from_utf8_lossy(&o.stdout).to_string();
        rep.stats.states += 1;
        rep.stats.transitions += 1;
        rep.stats.evaluations += 1;
        let ok = txt.lines().any(|l| l.starts_with(&format!("ok {} ", name)));
        if ok {
            rep.stats.count("depth_cases_ok", 1);
        } else {
            let how = if txt.lines().any(|l| l.starts_with(&format!("panic {} ", name))) {
                "panic"
            } else {
                "abort (stack overflow?)"
            };
            rep.stats.push_violation(Violation {
                signature: format!("depth-64:{}:{}", name, how),
                witness: format!("loading the {} case ends in {} (child status {:?})", name, how, o.status.code()),
                replay: json!({"kind":"load","rule_yaml":yaml}),
            });
        }
    }
    rep.stats.nontrivial = rep.stats.counters.get("patterns_accepted").cloned().unwrap_or(0)
        + rep.stats.counters.get("conditions_accepted").cloned().unwrap_or(0)
        + rep.stats.counters.get("keys_accepted").cloned().unwrap_or(0)
        + rep.stats.counters.get("token_conditions_accepted").cloned().unwrap_or(0)
        + rep.stats.counters.get("shaped_rules_accepted").cloned().unwrap_or(0);
    rep.stats.traces = rep.stats.evaluations;
    rep.stats.sample(json!({"pattern":"i\"","layer":"into_identifier"}));
    rep.stats.sample(json!({"condition":"a(n)d ","layers":["tokenise","loader","mapping key"]}));
    rep.stats.sample(json!({"shape":"detection/A/g:=seq-mixed","layers":["from_value","from_str"]}));
    rep.rule = "every string up to the length bound over an adversarial alphabet: as identifier pattern (into_identifier; and in lists of three, alone in a list and repeated in a list through the loader under k / all(k) / of(k,1) / str(k)), as condition text (tokeniser alone, loader) and as mapping key under three value shapes (parse_identifier); every token string up to the bound over the condition token alphabet through the loader; a skeleton rule with every node position replaced by every shape of a 42-shape alphabet (thorough: every pair of positions) through from_value and from_str; 11 depth-64 / length-2000 cases in a child process. Oracle: the call returns (Ok or Err) - no panic, no abort, and returns within 10 s (watchdog). non-trivial = inputs the layer accepts (the rest are rejections, which is the other legal outcome)".into();
    rep.assumptions = vec![
        "serde_yaml itself is trusted".into(),
        "nesting beyond 64 is out of scope".into(),
    ];
    rep.finish()
}
