//! C05: condition grammar - fixed precedence, associativity and parentheses.

use rayon::prelude::*;
use serde_json::json;

use crate::eng;
use crate::mdoc::{s, MObj, MVal};
use crate::report::{Report, Rng, Stats, Tier, Violation};

#[derive(Clone, Debug)]
enum Ast {
    Leaf(usize, u8), // position, kind: 0 ident, 1 all(S), 2 of(S,1), 3 int(f)==1, 4 1<int(f)
    Not(Box<Ast>),
    And(Box<Ast>, Box<Ast>),
    Or(Box<Ast>, Box<Ast>),
}

const NAME_SETS: [[&str; 5]; 6] = [
    ["A", "B", "C", "D", "E"],
    ["android", "order", "nothing", "allow", "offline"],
    ["andy", "orx", "notx", "ofx", "intx"],
    ["strx", "stringy", "fltx", "A1", "B_2"],
    ["not_a", "or_b", "and_c", "all_d", "of_e"],
    ["not.a", "or#b", "and.c", "int_f", "str_g"],
];

/// a document value for a comparison leaf
#[derive(Clone, Copy)]
enum LV {
    I(i64),
    S(&'static str),
    Fl(f64),
}
/// comparison leaves (kind >= 3): text template ({} = leaf position), then the (field prefix,
/// value) pairs that make it true and those that make it false; missing = no field at all
struct CmpLeaf {
    text: &'static str,
    t: &'static [(&'static str, LV)],
    f: &'static [(&'static str, LV)],
}
const CMP_LEAVES: [CmpLeaf; 16] = [
    CmpLeaf { text: "int(f{}) == 1", t: &[("f", LV::I(1))], f: &[("f", LV::I(2))] },
    CmpLeaf { text: "1 < int(f{})", t: &[("f", LV::I(2))], f: &[("f", LV::I(0))] },
    CmpLeaf { text: "int(f{}) <= 1", t: &[("f", LV::I(1))], f: &[("f", LV::I(2))] },
    CmpLeaf { text: "int(f{}) >= 1", t: &[("f", LV::I(1))], f: &[("f", LV::I(0))] },
    CmpLeaf { text: "int(f{}) < 1", t: &[("f", LV::I(0))], f: &[("f", LV::I(1))] },
    CmpLeaf { text: "int(f{}) > 1", t: &[("f", LV::I(2))], f: &[("f", LV::I(1))] },
    CmpLeaf { text: "1 <= int(f{})", t: &[("f", LV::I(1))], f: &[("f", LV::I(0))] },
    CmpLeaf { text: "1 >= int(f{})", t: &[("f", LV::I(1))], f: &[("f", LV::I(2))] },
    CmpLeaf { text: "1 > int(f{})", t: &[("f", LV::I(0))], f: &[("f", LV::I(1))] },
    CmpLeaf { text: "1 == int(f{})", t: &[("f", LV::I(1))], f: &[("f", LV::I(0))] },
    CmpLeaf { text: "flt(f{}) >= 1.5", t: &[("f", LV::Fl(1.5))], f: &[("f", LV::I(1))] },
    CmpLeaf { text: "0.5 > flt(f{})", t: &[("f", LV::Fl(0.25))], f: &[("f", LV::Fl(0.5))] },
    CmpLeaf { text: "str(f{}) == str(g{})", t: &[("f", LV::S("v")), ("g", LV::S("v"))], f: &[("f", LV::S("v")), ("g", LV::S("w"))] },
    CmpLeaf { text: "string(f{}) == string(g{})", t: &[("f", LV::I(1)), ("g", LV::S("1"))], f: &[("f", LV::I(1)), ("g", LV::S("2"))] },
    CmpLeaf { text: "int(f{}) == int(g{})", t: &[("f", LV::I(3)), ("g", LV::S("3"))], f: &[("f", LV::I(3)), ("g", LV::I(4))] },
    CmpLeaf { text: "flt(f{}) < flt(g{})", t: &[("f", LV::I(1)), ("g", LV::Fl(1.5))], f: &[("f", LV::I(2)), ("g", LV::Fl(1.5))] },
];
const LEAF_KINDS: u8 = 3 + CMP_LEAVES.len() as u8;

fn leaf_text(pos: usize, kind: u8, names: &[&str; 5]) -> String {
    match kind {
        0 => names[pos].to_string(),
        1 => format!("all({})", names[pos]),
        2 => format!("of({}, 1)", names[pos]),
        k => CMP_LEAVES[(k - 3) as usize].text.replace("{}", &(pos + 1).to_string()),
    }
}

fn prec(a: &Ast) -> u8 {
    match a {
        Ast::And(_, _) => 1,
        Ast::Or(_, _) => 2,
        Ast::Not(_) => 3,
        Ast::Leaf(_, k) => {
            if *k >= 3 {
                4 // a comparison: tighter than or, but `not` needs parentheses around it
            } else {
                5
            }
        }
    }
}

/// minimal parentheses according to the stated grammar
fn bare(a: &Ast, names: &[&str; 5]) -> String {
    match a {
        Ast::Leaf(p, k) => leaf_text(*p, *k, names),
        Ast::Not(x) => {
            let inner = bare(x, names);
            match **x {
                Ast::Leaf(_, k) if k < 3 => format!("not {}", inner),
                Ast::Not(_) => format!("not {}", inner),
                _ => format!("not ({})", inner),
            }
        }
        Ast::And(l, r) | Ast::Or(l, r) => {
            let me = prec(a);
            let op = if me == 1 { "and" } else { "or" };
            let ls = if prec(l) < me { format!("({})", bare(l, names)) } else { bare(l, names) };
            let rs = if prec(r) <= me { format!("({})", bare(r, names)) } else { bare(r, names) };
            format!("{} {} {}", ls, op, rs)
        }
    }
}

fn full(a: &Ast, names: &[&str; 5]) -> String {
    match a {
        Ast::Leaf(p, k) => {
            if *k >= 3 {
                format!("({})", leaf_text(*p, *k, names))
            } else {
                leaf_text(*p, *k, names)
            }
        }
        Ast::Not(x) => format!("(not ({}))", full(x, names)),
        Ast::And(l, r) => format!("(({}) and ({}))", full(l, names), full(r, names)),
        Ast::Or(l, r) => format!("(({}) or ({}))", full(l, names), full(r, names)),
    }
}

/// every single redundant parenthesis pair
fn redundant(a: &Ast, names: &[&str; 5]) -> Vec<String> {
    // wrap each subtree in turn
    fn go(a: &Ast, names: &[&str; 5], target: usize, counter: &mut usize) -> Ast2 {
        let me = *counter;
        *counter += 1;
        let inner = match a {
            Ast::Leaf(p, k) => Ast2::Text(leaf_text(*p, *k, names), prec(a)),
            Ast::Not(x) => Ast2::Not(Box::new(go(x, names, target, counter))),
            Ast::And(l, r) => Ast2::Bin(1, Box::new(go(l, names, target, counter)), Box::new(go(r, names, target, counter))),
            Ast::Or(l, r) => Ast2::Bin(2, Box::new(go(l, names, target, counter)), Box::new(go(r, names, target, counter))),
        };
        if me == target {
            Ast2::Paren(Box::new(inner))
        } else {
            inner
        }
    }
    enum Ast2 {
        Text(String, u8),
        Not(Box<Ast2>),
        Bin(u8, Box<Ast2>, Box<Ast2>),
        Paren(Box<Ast2>),
    }
    fn p2(a: &Ast2) -> u8 {
        match a {
            Ast2::Text(_, p) => *p,
            Ast2::Not(_) => 3,
            Ast2::Bin(p, _, _) => *p,
            Ast2::Paren(_) => 6,
        }
    }
    fn show(a: &Ast2) -> String {
        match a {
            Ast2::Text(t, _) => t.clone(),
            Ast2::Paren(x) => format!("({})", show(x)),
            Ast2::Not(x) => match **x {
                Ast2::Text(_, p) if p == 5 => format!("not {}", show(x)),
                Ast2::Not(_) | Ast2::Paren(_) => format!("not {}", show(x)),
                _ => format!("not ({})", show(x)),
            },
            Ast2::Bin(me, l, r) => {
                let op = if *me == 1 { "and" } else { "or" };
                let ls = if p2(l) < *me { format!("({})", show(l)) } else { show(l) };
                let rs = if p2(r) <= *me { format!("({})", show(r)) } else { show(r) };
                format!("{} {} {}", ls, op, rs)
            }
        }
    }
    fn size(a: &Ast) -> usize {
        match a {
            Ast::Leaf(_, _) => 1,
            Ast::Not(x) => 1 + size(x),
            Ast::And(l, r) | Ast::Or(l, r) => 1 + size(l) + size(r),
        }
    }
    let n = size(a);
    (0..n)
        .map(|t| {
            let mut c = 0;
            show(&go(a, names, t, &mut c))
        })
        .collect()
}

fn spaced(text: &str) -> Vec<String> {
    // extra blanks at inter-token positions only: after "and"/"or"/"not" words and around
    // parentheses and operators; never inside `all(`, `of(`, `int(`
    let double = text.replace(' ', "  ");
    let tabbed = text.replace(' ', " \t");
    let padded = format!("  {} ", text);
    let parens = text.replace("(", "( ").replace(')', " )").replace("all( ", "all(").replace("of( ", "of(").replace("int( ", "int(");
    vec![double, tabbed, padded, parens]
}

// --- trees -------------------------------------------------------------------------------------

fn shapes(k: usize, first: usize) -> Vec<Ast> {
    // all binary trees over leaves first..first+k, each internal node `and` or `or`
    if k == 1 {
        return vec![Ast::Leaf(first, 0)];
    }
    let mut out = vec![];
    for l in 1..k {
        for a in shapes(l, first) {
            for b in shapes(k - l, first + l) {
                out.push(Ast::And(Box::new(a.clone()), Box::new(b.clone())));
                out.push(Ast::Or(Box::new(a.clone()), Box::new(b.clone())));
            }
        }
    }
    out
}

fn nodes(a: &Ast) -> usize {
    match a {
        Ast::Leaf(_, _) => 1,
        Ast::Not(x) => nodes(x),
        Ast::And(l, r) | Ast::Or(l, r) => 1 + nodes(l) + nodes(r),
    }
}

/// put `not` in front of the nodes whose pre-order index is in `set` (double not when listed twice)
fn with_nots(a: &Ast, set: &[usize], counter: &mut usize) -> Ast {
    let me = *counter;
    *counter += 1;
    let inner = match a {
        Ast::Leaf(p, k) => Ast::Leaf(*p, *k),
        Ast::Not(x) => Ast::Not(Box::new(with_nots(x, set, counter))),
        Ast::And(l, r) => Ast::And(Box::new(with_nots(l, set, counter)), Box::new(with_nots(r, set, counter))),
        Ast::Or(l, r) => Ast::Or(Box::new(with_nots(l, set, counter)), Box::new(with_nots(r, set, counter))),
    };
    let n = set.iter().filter(|x| **x == me).count();
    let mut out = inner;
    for _ in 0..n {
        out = Ast::Not(Box::new(out));
    }
    out
}

fn with_leaf_kind(a: &Ast, pos: usize, kind: u8) -> Ast {
    match a {
        Ast::Leaf(p, k) => {
            if *p == pos {
                Ast::Leaf(*p, kind)
            } else {
                Ast::Leaf(*p, *k)
            }
        }
        Ast::Not(x) => Ast::Not(Box::new(with_leaf_kind(x, pos, kind))),
        Ast::And(l, r) => Ast::And(Box::new(with_leaf_kind(l, pos, kind)), Box::new(with_leaf_kind(r, pos, kind))),
        Ast::Or(l, r) => Ast::Or(Box::new(with_leaf_kind(l, pos, kind)), Box::new(with_leaf_kind(r, pos, kind))),
    }
}

fn trees(k: usize, max_nots: usize) -> Vec<Ast> {
    let mut out = vec![];
    for sh in shapes(k, 0) {
        let n = nodes(&sh);
        let mut notsets: Vec<Vec<usize>> = vec![vec![]];
        for i in 0..n {
            notsets.push(vec![i]);
        }
        if max_nots >= 2 {
            for i in 0..n {
                for j in i..n {
                    notsets.push(vec![i, j]); // i == j: double negation
                }
            }
        }
        for ns in &notsets {
            let mut c = 0;
            let t = with_nots(&sh, ns, &mut c);
            out.push(t.clone());
            for pos in 0..k {
                for kind in 1..LEAF_KINDS {
                    out.push(with_leaf_kind(&t, pos, kind));
                }
            }
        }
    }
    out
}

// --- evaluation --------------------------------------------------------------------------------

struct Tables {
    and2: [[i8; 3]; 3],
    or2: [[i8; 3]; 3],
    not1: [i8; 3],
}
fn ix(v: i8) -> usize {
    (v + 1) as usize // M=-1 -> 0, F -> 1, T -> 2
}

fn rule_yaml(cond: &str, names: &[&str; 5]) -> String {
    let mut out = String::from("detection:\n");
    for (i, n) in names.iter().enumerate() {
        // a one-row sequence so that all(X) / of(X, 1) mirror the row's value
        out.push_str(&format!("  {}: [{{f{}: v}}]\n", n, i + 1));
    }
    out.push_str(&format!(
        "  condition: {}\ntrue_positives: []\ntrue_negatives: []\n",
        serde_json::to_string(cond).unwrap()
    ));
    out
}

/// document giving leaf i (of kind k) the value vals[i]
fn doc_for(a: &Ast, vals: &[i8]) -> MObj {
    let mut d = MObj::new();
    fn go(a: &Ast, vals: &[i8], d: &mut MObj) {
        match a {
            Ast::Leaf(p, k) => {
                let name = format!("f{}", p + 1);
                let v = vals[*p];
                match (k, v) {
                    (_, -1) => {}
                    (0..=2, 1) => d.set(&name, s("v")),
                    (0..=2, _) => d.set(&name, s("w")),
                    (k, tv) => {
                        let leaf = &CMP_LEAVES[(*k - 3) as usize];
                        let vals = if tv == 1 { leaf.t } else { leaf.f };
                        for (prefix, v) in vals {
                            let fname = format!("{}{}", prefix, p + 1);
                            d.set(
                                &fname,
                                match v {
                                    LV::I(i) => MVal::Int(*i),
                                    LV::S(x) => s(x),
                                    LV::Fl(x) => MVal::Float(*x),
                                },
                            );
                        }
                    }
                }
            }
            Ast::Not(x) => go(x, vals, d),
            Ast::And(l, r) | Ast::Or(l, r) => {
                go(l, vals, d);
                go(r, vals, d);
            }
        }
    }
    go(a, vals, &mut d);
    d
}

fn compose(a: &Ast, vals: &[i8], t: &Tables) -> i8 {
    match a {
        Ast::Leaf(p, _) => vals[*p],
        Ast::Not(x) => t.not1[ix(compose(x, vals, t))],
        Ast::And(l, r) => t.and2[ix(compose(l, vals, t))][ix(compose(r, vals, t))],
        Ast::Or(l, r) => t.or2[ix(compose(l, vals, t))][ix(compose(r, vals, t))],
    }
}

fn leaves(a: &Ast) -> usize {
    match a {
        Ast::Leaf(_, _) => 1,
        Ast::Not(x) => leaves(x),
        Ast::And(l, r) | Ast::Or(l, r) => leaves(l) + leaves(r),
    }
}
fn ops(a: &Ast, out: &mut Vec<&'static str>) {
    match a {
        Ast::Leaf(_, k) => {
            if *k >= 3 {
                out.push("cmp")
            } else if *k > 0 {
                out.push("quant")
            }
        }
        Ast::Not(x) => {
            out.push("not");
            ops(x, out)
        }
        Ast::And(l, r) => {
            out.push("and");
            ops(l, out);
            ops(r, out)
        }
        Ast::Or(l, r) => {
            out.push("or");
            ops(l, out);
            ops(r, out)
        }
    }
}

fn measure() -> Option<Tables> {
    let names = NAME_SETS[0];
    let mut t = Tables {
        and2: [[0; 3]; 3],
        or2: [[0; 3]; 3],
        not1: [0; 3],
    };
    let ra = eng::load(&rule_yaml("A and B", &names)).ok()?;
    let ro = eng::load(&rule_yaml("A or B", &names)).ok()?;
    let rn = eng::load(&rule_yaml("not A", &names)).ok()?;
    let two = Ast::And(Box::new(Ast::Leaf(0, 0)), Box::new(Ast::Leaf(1, 0)));
    for x in [-1i8, 0, 1] {
        for y in [-1i8, 0, 1] {
            let d = doc_for(&two, &[x, y]);
            t.and2[ix(x)][ix(y)] = eng::val3(&ra, &d).ok()?;
            t.or2[ix(x)][ix(y)] = eng::val3(&ro, &d).ok()?;
        }
        let d = doc_for(&Ast::Leaf(0, 0), &[x]);
        t.not1[ix(x)] = eng::val3(&rn, &d).ok()?;
    }
    Some(t)
}

fn check_tree(a: &Ast, idx: usize, t: &Tables, variants: bool) -> Stats {
    let mut st = Stats::default();
    let names = NAME_SETS[idx % NAME_SETS.len()];
    let k = leaves(a);
    let b = bare(a, &names);
    let f = full(a, &names);
    let mut texts: Vec<(String, String)> = vec![("bare".into(), b.clone()), ("fully-parenthesised".into(), f.clone())];
    if variants {
        for r in redundant(a, &names) {
            texts.push(("redundant-parentheses".into(), r));
        }
        for sp in spaced(&b) {
            texts.push(("extra-spaces".into(), sp));
        }
    }
    let mut o = vec![];
    ops(a, &mut o);
    o.sort();
    o.dedup();
    let opset = o.join("+");
    let mut rules = vec![];
    for (kind, text) in &texts {
        match eng::load(&rule_yaml(text, &names)) {
            Ok(r) => rules.push((kind.clone(), text.clone(), r)),
            Err(e) => {
                st.push_violation(Violation {
                    signature: format!("well-formed-condition-rejected:{}:{}", kind, opset),
                    witness: format!("condition {:?} does not load: {:?}", text, e),
                    replay: json!({"kind":"condition","condition":text,"rule_yaml":rule_yaml(text, &names)}),
                });
            }
        }
        st.transitions += 1;
    }
    // all assignments
    let mut vals = vec![-1i8; 5];
    let total = 3usize.pow(k as u32);
    for n in 0..total {
        let mut m = n;
        for v in vals.iter_mut().take(k) {
            *v = (m % 3) as i8 - 1;
            m /= 3;
        }
        let d = doc_for(a, &vals);
        let want = compose(a, &vals, t);
        for (kind, text, r) in &rules {
            let got = eng::val3(r, &d).unwrap_or(2);
            st.states += 1;
            st.transitions += 1;
            st.traces += 1;
            st.evaluations += 1;
            if got != want {
                st.push_violation(Violation {
                    signature: format!("{}-form-differs-from-the-grammar's-tree:{}", kind, opset),
                    witness: format!(
                        "condition {:?} with leaves {:?} = {} ; the tree {} composed from the engine's own and/or/not tables gives {}",
                        text,
                        vals[..k].iter().map(|v| eng::v3name(*v)).collect::<Vec<_>>(),
                        eng::v3name(got),
                        f,
                        eng::v3name(want)
                    ),
                    replay: json!({"kind":"reference","rule_yaml":rule_yaml(text, &names),"document":crate::report::mobj_to_json(&d),"expected":eng::v3name(want)}),
                });
            }
        }
    }
    st.nontrivial += 1;
    st
}

pub fn run(tier: Tier) -> i32 {
    let mut rep = Report::new("C05", tier);
    let th = tier.thorough();
    let tables = match measure() {
        Some(t) => t,
        None => {
            eprintln!("machinery error: cannot measure the binary tables");
            return 2;
        }
    };
    let mut all: Vec<Ast> = vec![];
    for k in 1..=(if th { 5 } else { 4 }) {
        let max_nots = if k <= 3 || th { 2 } else { 1 };
        let ts = trees(k, if k == 5 { 1 } else { max_nots });
        all.extend(ts);
    }
    rep.stats.count("trees", all.len() as u64);
    let parts: Vec<Stats> = all
        .par_iter()
        .enumerate()
        .map(|(i, a)| {
            let k = leaves(a);
            let variants = k <= 3 || (th && k == 4) || i % 5 == 0;
            check_tree(a, i, &tables, variants)
        })
        .collect();
    for p in parts {
        rep.stats.merge(p);
    }
    // identifier-shaped words: every word over the letters of the keywords plus _ . # 1 that is not
    // itself a keyword must be an ordinary identifier wherever an identifier may stand
    {
        let alpha = ["a", "n", "d", "o", "r", "t", "l", "f", "i", "s", "_", ".", "#", "1"];
        let maxlen = if th { 5 } else { 4 };
        let total = crate::c04::count_upto(alpha.len(), maxlen);
        let words: Vec<String> = (1..total)
            .map(|i| crate::c04::nth_string(&alpha, i))
            .filter(|w| {
                let c = w.chars().next().unwrap();
                c.is_ascii_alphabetic() && !["and", "or", "not", "all", "of", "int", "flt", "str"].contains(&w.as_str())
            })
            .collect();
        rep.stats.count("identifier_words", words.len() as u64);
        let tables_ref = &tables;
        let parts: Vec<Stats> = words
            .par_chunks(512)
            .map(|chunk| {
                let mut st = Stats::default();
                for w in chunk {
                    let forms = [
                        (format!("{} and B", w), 0u8),
                        (format!("B or {}", w), 1),
                        (format!("not {}", w), 2),
                        (format!("B and not {} or B", w), 3),
                    ];
                    for (cond, form) in forms {
                        let yaml = format!(
                            "detection:\n  {}: [{{f1: v}}]\n  B: [{{f2: v}}]\n  condition: {}\ntrue_positives: []\ntrue_negatives: []\n",
                            serde_json::to_string(w).unwrap(),
                            serde_json::to_string(&cond).unwrap()
                        );
                        st.transitions += 1;
                        let r = match eng::load(&yaml) {
                            Ok(r) => r,
                            Err(e) => {
                                st.push_violation(Violation {
                                    signature: "keyword-like-word-not-an-identifier:rejected".into(),
                                    witness: format!("condition {:?} over identifier {:?} does not load: {:?}", cond, w, e),
                                    replay: json!({"kind":"condition","condition":cond,"rule_yaml":yaml}),
                                });
                                continue;
                            }
                        };
                        st.nontrivial += 1;
                        for x in [-1i8, 0, 1] {
                            for y in [-1i8, 0, 1] {
                                let mut d = MObj::new();
                                if x >= 0 {
                                    d.set("f1", s(if x == 1 { "v" } else { "w" }));
                                }
                                if y >= 0 {
                                    d.set("f2", s(if y == 1 { "v" } else { "w" }));
                                }
                                let t = tables_ref;
                                let want = match form {
                                    0 => t.and2[ix(x)][ix(y)],
                                    1 => t.or2[ix(y)][ix(x)],
                                    2 => t.not1[ix(x)],
                                    _ => t.and2[ix(y)][ix(t.or2[ix(t.not1[ix(x)])][ix(y)])],
                                };
                                let got = eng::val3(&r, &d).unwrap_or(2);
                                st.states += 1;
                                st.transitions += 1;
                                st.traces += 1;
                                st.evaluations += 1;
                                if got != want {
                                    st.push_violation(Violation {
                                        signature: "keyword-like-word-not-an-identifier:wrong-verdict".into(),
                                        witness: format!("condition {:?}: identifier={} B={} gives {} ; composed from the measured tables {}", cond, eng::v3name(x), eng::v3name(y), eng::v3name(got), eng::v3name(want)),
                                        replay: json!({"kind":"reference","rule_yaml":yaml,"document":crate::report::mobj_to_json(&d),"expected":eng::v3name(want)}),
                                    });
                                }
                            }
                        }
                    }
                }
                st
            })
            .collect();
        for p in parts {
            rep.stats.merge(p);
        }
    }
    // sampled supplement: larger random conditions
    let mut rng = Rng::new(crate::report::seed());
    let mut sup = 0u64;
    let n = if th { 3000 } else { 300 };
    for i in 0..n {
        // random tree over 5 leaves with random nots
        let sh = shapes(5, 0);
        let base = &sh[rng.below(sh.len())];
        let nn = nodes(base);
        let ns: Vec<usize> = (0..3).map(|_| rng.below(nn)).collect();
        let mut c = 0;
        let t = with_nots(base, &ns, &mut c);
        let st = check_tree(&t, i, &tables, true);
        sup += 1;
        for v in st.violations {
            rep.stats.push_violation(v);
        }
    }
    rep.extra.insert("sampled_supplement".into(), json!({"cases": sup, "what": "seeded random 5-leaf trees with three random negations; not part of the exhaustive claim"}));
    rep.extra.insert(
        "measured_tables".into(),
        json!({"and": tables.and2, "or": tables.or2, "not": tables.not1, "index": "M,F,T"}),
    );
    rep.stats.sample(json!({"bare":"A and B or not C","grammar_tree":"((A) and ((B) or (not (C))))"}));
    rep.stats.sample(json!({"bare":"android or order and nothing","names":"keyword-prefixed identifiers"}));
    rep.rule = "every condition tree with up to N leaves: all binary shapes x and/or at every internal node x not on up to two nodes (including double negation) x leaf kinds (identifier, all(S), of(S,1), int(f)==1, 1<int(f)) over six name sets including keyword-prefixed identifiers (android, notx, not_a, or#b, and.c); printed with the minimal parentheses the stated grammar allows, fully parenthesised, with every single redundant parenthesis pair and with extra blanks/tabs; x all 3^k assignments of true/false/missing to the leaves. plus every word up to the length bound over {a n d o r t l f i s _ . # 1} that starts with a letter and is not itself a keyword, used as an identifier in four condition shapes x all 9 assignments. Oracle: every rendering must load and its three-valued result must equal the intended tree composed from the engine's own measured and/or/not tables (so a truth-table change cannot raise an alarm here)".into();
    rep.assumptions = vec!["malformed conditions (unbalanced parentheses, keyword followed by its own parenthesis) are not judged".into()];
    rep.finish()
}
