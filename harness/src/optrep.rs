//! A pass-by-pass replica of `Rule::optimise` built from the real `core::optimiser` passes, with a
//! deterministic identifier order so that hash-order choice scripts replay exactly. Conformance
//! with `Rule::optimise` itself is checked by the callers (identity order, canonical Display).

use std::collections::{BTreeMap, HashMap};

use tau_engine::core::optimiser as opt;
use tau_engine::core::parser::{Expression, Match};
use tau_engine::Document;
use tau_engine::Value;

use crate::eng::{self, Sw};
use crate::mdoc::MObj;
use crate::report::catch;

#[derive(Clone)]
pub struct Det {
    pub expr: Expression,
    pub ids: HashMap<String, Expression>,
}

impl Det {
    pub fn of_rule(r: &tau_engine::Rule) -> Det {
        Det {
            expr: r.detection.expression.clone(),
            ids: r.detection.identifiers.clone(),
        }
    }
    pub fn canon(&self) -> String {
        format!("{} | {}", self.expr, eng::canon_ids(&self.ids))
    }
    pub fn val3(&self, doc: &dyn Document) -> Result<i8, String> {
        eng::solve3(&self.expr, &self.ids, doc)
    }
}

pub const PASSES: [&str; 4] = ["coalesce", "shake", "rewrite", "matrix"];

fn map_ids(
    ids: HashMap<String, Expression>,
    f: impl Fn(Expression) -> Expression,
) -> HashMap<String, Expression> {
    // deterministic order: sorted by identifier name
    let sorted: BTreeMap<String, Expression> = ids.into_iter().collect();
    sorted.into_iter().map(|(k, v)| (k, f(v))).collect()
}

/// Applies one pass (0 coalesce, 1 shake, 2 rewrite, 3 matrix) to a detection.
pub fn apply_pass(d: Det, pass: usize) -> Det {
    match pass {
        0 => Det {
            expr: opt::coalesce(d.expr, &d.ids),
            ids: HashMap::new(),
        },
        1 => Det {
            expr: opt::shake(d.expr),
            ids: map_ids(d.ids, opt::shake),
        },
        2 => Det {
            expr: opt::rewrite(d.expr),
            ids: map_ids(d.ids, opt::rewrite),
        },
        _ => Det {
            expr: opt::matrix(d.expr),
            ids: map_ids(d.ids, opt::matrix),
        },
    }
}

pub fn apply_expr(e: Expression, pass: usize, ids: &HashMap<String, Expression>) -> Expression {
    match pass {
        0 => opt::coalesce(e, ids),
        1 => opt::shake(e),
        2 => opt::rewrite(e),
        _ => opt::matrix(e),
    }
}

/// Runs the replica under a choice script. Returns the detection after every enabled pass
/// (stages[0] is the input) and the choice trace; Err carries the pass that panicked.
pub struct Staged {
    pub stages: Vec<(usize, Det)>, // (pass index that produced it; usize::MAX for the input)
    pub trace: Vec<(u32, u32)>,
    pub panic: Option<(usize, String)>,
}

pub fn optimise_replica(base: &Det, sw: Sw, choices: &[u32]) -> Staged {
    tau_engine::verif::set_script(choices.to_vec());
    let mut stages = vec![(usize::MAX, base.clone())];
    let mut panic = None;
    for pass in 0..4 {
        if sw & (1 << pass) == 0 {
            continue;
        }
        let cur = stages.last().unwrap().1.clone();
        match catch(move || apply_pass(cur, pass)) {
            Ok(d) => stages.push((pass, d)),
            Err(p) => {
                panic = Some((pass, p));
                break;
            }
        }
    }
    let trace = tau_engine::verif::take_trace();
    Staged {
        stages,
        trace,
        panic,
    }
}

// ---------------------------------------------------------------------------------------------
// localiser: reduce a verdict change to `pass @ site : before -> after`

pub fn ctor(e: &Expression) -> String {
    use tau_engine::core::parser::BoolSym;
    match e {
        Expression::BooleanGroup(BoolSym::And, _) => "Group&&".into(),
        Expression::BooleanGroup(BoolSym::Or, _) => "Group||".into(),
        Expression::BooleanGroup(_, _) => "Group?".into(),
        Expression::BooleanExpression(_, op, _) => match op {
            BoolSym::And => "Expr&&".into(),
            BoolSym::Or => "Expr||".into(),
            _ => "Cmp".into(),
        },
        Expression::Boolean(_) => "Bool".into(),
        Expression::Cast(_, _) => "Cast".into(),
        Expression::Field(_) => "Field".into(),
        Expression::Float(_) => "Float".into(),
        Expression::Identifier(_) => "Ident".into(),
        Expression::Integer(_) => "Int".into(),
        Expression::Match(Match::All, _) => "All".into(),
        Expression::Match(Match::Of(0), _) => "Of0".into(),
        Expression::Match(Match::Of(_), _) => "OfN".into(),
        Expression::Matrix(_, _) => "Matrix".into(),
        Expression::Negate(_) => "Not".into(),
        Expression::Nested(_, _) => "Nested".into(),
        Expression::Null => "Null".into(),
        Expression::Search(_, _, _) => "Search".into(),
    }
}

fn site_name(e: &Expression) -> String {
    match e {
        Expression::Match(_, x) | Expression::Negate(x) | Expression::Nested(_, x) => {
            format!("{}({})", ctor(e), ctor(x))
        }
        _ => ctor(e),
    }
}

// --- which values can `e` take on `doc` if the operands of its conjunctions are reordered? -----
const BT: u8 = 1;
const BF: u8 = 2;
const BM: u8 = 4;
const BP: u8 = 8;
fn bit(v: i8) -> u8 {
    match v {
        1 => BT,
        0 => BF,
        -1 => BM,
        _ => BP,
    }
}
fn and_sets(sets: &[u8]) -> u8 {
    let mut r = 0;
    if sets.iter().all(|s| s & BT != 0) {
        r |= BT;
    }
    if sets.iter().any(|s| s & BF != 0) {
        r |= BF;
    }
    if sets.iter().any(|s| s & BM != 0) {
        r |= BM;
    }
    if sets.iter().any(|s| s & BP != 0) {
        r |= BP;
    }
    r
}
fn or_sets(sets: &[u8]) -> u8 {
    let mut r = 0;
    if sets.iter().any(|s| s & BT != 0) {
        r |= BT;
    }
    if sets.iter().all(|s| s & (BF | BM) != 0) && sets.iter().any(|s| s & BF != 0) {
        r |= BF;
    }
    if sets.iter().all(|s| s & BM != 0) {
        r |= BM;
    }
    if sets.iter().any(|s| s & BP != 0) {
        r |= BP;
    }
    r
}
fn of_sets(sets: &[u8], n: u64) -> u8 {
    // enumerate the product of the operand value sets
    let mut r = 0u8;
    let k = sets.len();
    if k > 6 {
        return BT | BF | BM;
    }
    let opts: Vec<Vec<i8>> = sets
        .iter()
        .map(|s| {
            let mut v = vec![];
            if s & BT != 0 {
                v.push(1)
            }
            if s & BF != 0 {
                v.push(0)
            }
            if s & BM != 0 {
                v.push(-1)
            }
            if v.is_empty() {
                v.push(2)
            }
            v
        })
        .collect();
    let mut idx = vec![0usize; k];
    loop {
        let vals: Vec<i8> = (0..k).map(|i| opts[i][idx[i]]).collect();
        let t = vals.iter().filter(|v| **v == 1).count() as u64;
        let anyf = vals.iter().any(|v| *v == 0);
        let v = if n == 0 {
            if t > 0 {
                0
            } else if anyf {
                1
            } else {
                -1
            }
        } else if t >= n {
            1
        } else if anyf {
            0
        } else {
            -1
        };
        r |= bit(v);
        let mut j = 0;
        loop {
            if j == k {
                return r;
            }
            idx[j] += 1;
            if idx[j] < opts[j].len() {
                break;
            }
            idx[j] = 0;
            j += 1;
        }
    }
}

pub fn reach(e: &Expression, ids: &HashMap<String, Expression>, doc: &dyn Document, depth: usize) -> u8 {
    use tau_engine::core::parser::BoolSym;
    if depth > 16 {
        return bit(v3(e, ids, doc));
    }
    match e {
        Expression::BooleanGroup(BoolSym::And, g) => {
            and_sets(&g.iter().map(|x| reach(x, ids, doc, depth + 1)).collect::<Vec<_>>())
        }
        Expression::BooleanGroup(BoolSym::Or, g) => {
            or_sets(&g.iter().map(|x| reach(x, ids, doc, depth + 1)).collect::<Vec<_>>())
        }
        Expression::BooleanExpression(l, BoolSym::And, r) => and_sets(&[
            reach(l, ids, doc, depth + 1),
            reach(r, ids, doc, depth + 1),
        ]),
        Expression::BooleanExpression(l, BoolSym::Or, r) => or_sets(&[
            reach(l, ids, doc, depth + 1),
            reach(r, ids, doc, depth + 1),
        ]),
        Expression::Negate(x) => {
            let s = reach(x, ids, doc, depth + 1);
            let mut r = 0;
            if s & BT != 0 {
                r |= BF;
            }
            if s & BF != 0 {
                r |= BT;
            }
            if s & BM != 0 {
                r |= BF;
            }
            if s & BP != 0 {
                r |= BP;
            }
            r
        }
        Expression::Identifier(i) => match ids.get(i) {
            Some(x) => reach(x, ids, doc, depth + 1),
            None => BP,
        },
        Expression::Nested(f, x) => match doc.find(f) {
            None => BM,
            Some(Value::Object(o)) => reach(x, ids, &ObjDoc(o), depth + 1),
            Some(_) => bit(v3(e, ids, doc)),
        },
        Expression::Match(m, x) => {
            let inner: &Expression = match &**x {
                Expression::Identifier(i) => match ids.get(i) {
                    Some(b) => b,
                    None => return BP,
                },
                other => other,
            };
            if let Expression::BooleanGroup(_, g) = inner {
                let sets: Vec<u8> = g.iter().map(|x| reach(x, ids, doc, depth + 1)).collect();
                match m {
                    Match::All => and_sets(&sets),
                    Match::Of(n) => of_sets(&sets, *n),
                }
            } else {
                bit(v3(e, ids, doc))
            }
        }
        _ => bit(v3(e, ids, doc)),
    }
}

/// value (1/0/-1, 2 = panic) of `e` on `doc`
fn v3(e: &Expression, ids: &HashMap<String, Expression>, doc: &dyn Document) -> i8 {
    eng::solve3(e, ids, doc).unwrap_or(2)
}

/// Does applying `pass` to `e` alone change its value on `doc` under some hash order?
/// Returns (before, after) of the first diverging order.
fn diverges(
    e: &Expression,
    pass: usize,
    ids_in: &HashMap<String, Expression>,
    ids_out: &HashMap<String, Expression>,
    doc: &dyn Document,
) -> Option<(i8, i8)> {
    let before = v3(e, ids_in, doc);
    let mut found = None;
    eng::explore(64, |prefix| {
        tau_engine::verif::set_script(prefix.to_vec());
        let e2 = e.clone();
        let r = catch(|| apply_expr(e2, pass, ids_in));
        let trace = tau_engine::verif::take_trace();
        if found.is_none() {
            let after = match &r {
                Ok(x) => v3(x, ids_out, doc),
                Err(_) => 2,
            };
            if after != before {
                found = Some((before, after));
            }
        }
        trace
    });
    found
}

/// The set of values `pass(e)` takes on `doc` over all hash orders.
fn after_set(
    e: &Expression,
    pass: usize,
    ids_in: &HashMap<String, Expression>,
    ids_out: &HashMap<String, Expression>,
    doc: &dyn Document,
) -> u8 {
    let mut set = 0u8;
    eng::explore(64, |prefix| {
        tau_engine::verif::set_script(prefix.to_vec());
        let e2 = e.clone();
        let r = catch(|| apply_expr(e2, pass, ids_in));
        let trace = tau_engine::verif::take_trace();
        set |= match &r {
            Ok(x) => bit(v3(x, ids_out, doc)),
            Err(_) => BP,
        };
        trace
    });
    set
}

struct ObjDoc<'a>(&'a dyn tau_engine::Object);
impl Document for ObjDoc<'_> {
    fn find(&self, key: &str) -> Option<Value<'_>> {
        self.0.find(key)
    }
}

fn descend(
    e: &Expression,
    pass: usize,
    ids_in: &HashMap<String, Expression>,
    ids_out: &HashMap<String, Expression>,
    doc: &dyn Document,
    depth: usize,
) -> Option<String> {
    let (b, a) = diverges(e, pass, ids_in, ids_out, doc)?;
    if depth < 12 {
        let kids: Vec<&Expression> = match e {
            Expression::BooleanGroup(_, g) => g.iter().collect(),
            Expression::BooleanExpression(l, op, r) => {
                use tau_engine::core::parser::BoolSym;
                match op {
                    BoolSym::And | BoolSym::Or => vec![&**l, &**r],
                    _ => vec![],
                }
            }
            Expression::Negate(x) | Expression::Match(_, x) => vec![&**x],
            _ => vec![],
        };
        for k in kids {
            if let Some(s) = descend(k, pass, ids_in, ids_out, doc, depth + 1) {
                return Some(s);
            }
        }
        if let Expression::Identifier(i) = e {
            if let Some(x) = ids_in.get(i) {
                if let Some(s) = descend(x, pass, ids_in, ids_out, doc, depth + 1) {
                    return Some(s);
                }
            }
        }
        if let Expression::Nested(f, inner) = e {
            if let Some(Value::Object(o)) = doc.find(f) {
                if let Some(s) = descend(inner, pass, ids_in, ids_out, &ObjDoc(o), depth + 1) {
                    return Some(s);
                }
            }
        }
    }
    // classify the change at the site
    let kind = if bit(a) & reach(e, ids_in, doc, 0) != 0 {
        "operands-reordered".to_string()
    } else if let Some(k) = special_kind(e, pass, ids_in, ids_out, doc, b, a) {
        k
    } else {
        format!("{}->{}", eng::v3name(b), eng::v3name(a))
    };
    Some(format!("{}:{}", site_name(e), kind))
}

fn special_kind(
    e: &Expression,
    pass: usize,
    ids_in: &HashMap<String, Expression>,
    ids_out: &HashMap<String, Expression>,
    doc: &dyn Document,
    before: i8,
    after: i8,
) -> Option<String> {
    // not not X -> X
    if let Expression::Negate(x) = e {
        if let Expression::Negate(y) = &**x {
            if pass == 1 && v3(y, ids_in, doc) == after {
                return Some("double-negation-removed".into());
            }
        }
    }
    // shake removes a group of one entry under a quantifier: the quantifier then counts the
    // needles of the entry instead of the entry
    if let Expression::Match(m, x) = e {
        let inner: Option<&Expression> = match &**x {
            Expression::Identifier(i) => ids_in.get(i),
            other => Some(other),
        };
        if let Some(Expression::BooleanGroup(_, g)) = inner {
            if g.len() == 1 && pass == 1 {
                let direct = Expression::Match(m.clone(), Box::new(g[0].clone()));
                if v3(&direct, ids_in, doc) == after {
                    return Some("one-entry-group-unwrapped-under-quantifier".into());
                }
            }
        }
    }
    // a quantifier over an identifier that was optimised on its own, out of the quantifier's
    // sight: inlining the identifier first makes the divergence disappear
    if let Expression::Match(_, x) = e {
        if let Expression::Identifier(_) = &**x {
            let inlined = opt::coalesce(e.clone(), ids_in);
            if v3(&inlined, ids_in, doc) == before
                && after_set(&inlined, pass, ids_in, ids_out, doc) & bit(after) == 0
            {
                return Some("identifier-optimised-outside-its-quantifier".into());
            }
        }
    }
    None
}

/// Signature of a verdict change between `stages` on `doc`.
pub fn localise(st: &Staged, doc: &MObj) -> String {
    // first pass after which the three valued root value changes
    let vals: Vec<i8> = st
        .stages
        .iter()
        .map(|(_, d)| d.val3(doc).unwrap_or(2))
        .collect();
    for i in 1..st.stages.len() {
        if vals[i] != vals[i - 1] {
            let pass = st.stages[i].0;
            let din = &st.stages[i - 1].1;
            let dout = &st.stages[i].1;
            // identifier bodies first (a quantifier over a separately optimised identifier)
            let site = descend(&din.expr, pass, &din.ids, &dout.ids, doc, 0);
            let site = match site {
                Some(s) => s,
                None => {
                    // the expression alone does not diverge: look at the identifiers it counts
                    let mut s = None;
                    let sorted: BTreeMap<&String, &Expression> = din.ids.iter().collect();
                    for (k, x) in sorted {
                        let nb = entries(x);
                        let na = dout.ids.get(k).map(entries).unwrap_or(0);
                        if let Some(inner) = descend(x, pass, &din.ids, &dout.ids, doc, 0) {
                            s = Some(format!("ident:{}", inner));
                            break;
                        }
                        if nb != na {
                            s = Some(format!("count-via-identifier[{}->{}]", nb, na));
                            break;
                        }
                    }
                    s.unwrap_or_else(|| "unlocalised".into())
                }
            };
            return format!("{}@{}", PASSES[pass], site);
        }
    }
    "no-stage-changes-value".into()
}

fn entries(e: &Expression) -> usize {
    match e {
        Expression::BooleanGroup(_, g) => g.len(),
        Expression::Matrix(_, rows) => 1000 + rows.len(),
        _ => 1,
    }
}
