//! C07: string predicates are exact for all strings, single or batched.

use rayon::prelude::*;
use serde_json::json;

use crate::eng;
use crate::mdoc::{s, MObj};
use crate::refint::{self, Pat};
use crate::report::{Report, Rng, Stats, Tier, Violation};

fn strings(alpha: &[&str], maxlen: usize) -> Vec<String> {
    let mut out = vec![String::new()];
    let mut cur = vec![String::new()];
    for _ in 0..maxlen {
        let mut next = vec![];
        for c in &cur {
            for a in alpha {
                next.push(format!("{}{}", c, a));
            }
        }
        out.extend(next.iter().cloned());
        cur = next;
    }
    out
}

fn yq(x: &str) -> String {
    serde_json::to_string(x).unwrap()
}

fn rule_single(p: &str) -> String {
    format!(
        "detection:\n  A: {{f: {}}}\n  condition: A\ntrue_positives: []\ntrue_negatives: []\n",
        yq(p)
    )
}
fn rule_list(ps: &[&String]) -> String {
    format!(
        "detection:\n  A: {{f: [{}]}}\n  condition: A\ntrue_positives: []\ntrue_negatives: []\n",
        ps.iter().map(|p| yq(p)).collect::<Vec<_>>().join(", ")
    )
}

fn patterns(needles: &[String], regexes: &[&str]) -> Vec<String> {
    let mut out = vec![];
    for n in needles {
        out.push(n.clone()); // exact (or the special forms "" / "*" when n is empty)
        out.push(format!("{}*", n));
        out.push(format!("*{}", n));
        out.push(format!("*{}*", n));
        out.push(format!("'{}'", n));
        out.push(format!("\"*{}\"", n)); // quoted literal that looks like a suffix pattern
        out.push(format!("i{}", n));
        out.push(format!("i{}*", n));
        out.push(format!("i*{}", n));
        out.push(format!("i*{}*", n));
        out.push(format!("i'{}'", n));
    }
    for r in regexes {
        out.push(format!("?{}", r));
        out.push(format!("i?{}", r));
    }
    out.sort();
    out.dedup();
    out
}

fn kind(p: &str) -> String {
    match refint::parse_pattern(p) {
        Some((pat, ci)) => format!(
            "{}{}",
            if ci { "i" } else { "" },
            match pat {
                Pat::Any => "Any",
                Pat::Exact(ref x) if x.is_empty() => "ExactEmpty",
                Pat::Exact(_) => "Exact",
                Pat::Starts(_) => "Starts",
                Pat::Ends(_) => "Ends",
                Pat::Contains(_) => "Contains",
                Pat::Regex(_) => "Regex",
                Pat::Cmp(_, _) => "Cmp",
            }
        ),
        None => "Malformed".into(),
    }
}

struct Single {
    pat: String,
    /// engine verdict per haystack
    eng: Vec<bool>,
    /// reference verdict per haystack
    reference: Vec<bool>,
}

fn eval_single(p: &str, hays: &[String], docs: &[MObj], st: &mut Stats) -> Option<Single> {
    let (pat, ci) = refint::parse_pattern(p)?;
    if let Pat::Cmp(_, _) = pat {
        return None;
    }
    let yaml = rule_single(p);
    let rule = match eng::load(&yaml) {
        Ok(r) => r,
        Err(eng::LoadErr::Err(_)) => {
            st.count("patterns_rejected_by_loader", 1);
            return None;
        }
        Err(eng::LoadErr::Panic(_)) => {
            st.count("patterns_that_panic_at_load(C04)", 1);
            return None;
        }
    };
    let mut e = Vec::with_capacity(hays.len());
    let mut r = Vec::with_capacity(hays.len());
    // the optimised forms of a single predicate (rewrite strips regexes, shake rebuilds them)
    let optimised: Vec<(u8, tau_engine::Rule)> = [eng::SW_DEFAULT, 0b0100, 0b0010]
        .iter()
        .filter_map(|sw| eng::optimise_with(&rule, *sw, &[]).ok().map(|x| (*sw, x.0)))
        .collect();
    for (h, d) in hays.iter().zip(docs.iter()) {
        let got = eng::matches(&rule, d).unwrap_or(false);
        for (sw, o) in &optimised {
            let og = eng::matches(o, d).unwrap_or(false);
            st.transitions += 1;
            if og != got {
                st.push_violation(Violation {
                    signature: format!("single:{}:verdict-changes-after-optimise({})", kind(p), eng::sw_name(*sw)),
                    witness: format!("pattern {:?} on {:?}: as loaded {} after optimise({}) {}", p, h, got, eng::sw_name(*sw), og),
                    replay: json!({"kind":"optimise","rule_yaml":yaml,"sw_bits":sw,"hash_order_choices":[],"document":crate::report::mobj_to_json(d)}),
                });
            }
        }
        let want = refint::str_rel(&pat, ci, h)?;
        st.states += 1;
        st.transitions += 1;
        st.traces += 1;
        st.evaluations += 1;
        if got != want {
            st.push_violation(Violation {
                signature: format!(
                    "single:{}:{}",
                    kind(p),
                    if got { "engine-matches-but-relation-does-not-hold" } else { "relation-holds-but-engine-does-not-match" }
                ),
                witness: format!("pattern {:?} on {:?}: engine {} reference {}", p, h, got, want),
                replay: json!({"kind":"string","rule_yaml":yaml,"document":crate::report::mobj_to_json(d),"expected":want}),
            });
        }
        e.push(got);
        r.push(want);
    }
    Some(Single {
        pat: p.to_string(),
        eng: e,
        reference: r,
    })
}

fn check_list(members: &[&Single], hays: &[String], docs: &[MObj], optimise_too: bool) -> Stats {
    let mut st = Stats::default();
    let pats: Vec<&String> = members.iter().map(|m| &m.pat).collect();
    let yaml = rule_list(&pats);
    let rule = match eng::load(&yaml) {
        Ok(r) => r,
        Err(e) => {
            // every member loads on its own (it comes from the table of single patterns), so a list
            // of them that does not load can never "match when one member matches alone"
            st.count("lists_rejected_by_loader", 1);
            st.states += 1;
            st.push_violation(Violation {
                signature: "list-of-loadable-members-does-not-load".into(),
                witness: format!("f: {:?} is rejected ({:?}) although each member loads alone", pats, e),
                replay: json!({"kind":"load","rule_yaml":yaml}),
            });
            return st;
        }
    };
    let mut variants = vec![("as-loaded", rule.clone())];
    if optimise_too {
        if let Ok((r, _)) = eng::optimise_with(&rule, eng::SW_DEFAULT, &[]) {
            variants.push(("optimised", r));
        }
    }
    let mut kinds: Vec<String> = pats.iter().map(|p| kind(p)).collect();
    kinds.sort();
    let mut disc_t = false;
    let mut disc_f = false;
    for (vn, r) in &variants {
        for (i, d) in docs.iter().enumerate() {
            let got = eng::matches(r, d).unwrap_or(false);
            let want_ref = members.iter().any(|m| m.reference[i]);
            let want_eng = members.iter().any(|m| m.eng[i]);
            st.states += 1;
            st.transitions += 1;
            st.traces += 1;
            st.evaluations += 1;
            if got {
                disc_t = true
            } else {
                disc_f = true
            }
            if got != want_ref || got != want_eng {
                st.push_violation(Violation {
                    signature: format!(
                        "list[{}]:{}:{}",
                        kinds.join(","),
                        vn,
                        if got { "list-matches-but-no-member-does" } else { "a-member-matches-but-the-list-does-not" }
                    ),
                    witness: format!(
                        "list {:?} on {:?} ({}): engine {} ; OR of members: reference {} engine-singles {}",
                        pats, hays[i], vn, got, want_ref, want_eng
                    ),
                    replay: json!({"kind":"string","rule_yaml":yaml,"document":crate::report::mobj_to_json(d),"expected":want_ref,"variant":vn}),
                });
            }
        }
    }
    if disc_t && disc_f {
        st.nontrivial += 1;
    }
    st
}

pub fn run(tier: Tier) -> i32 {
    let mut rep = Report::new("C07", tier);
    let th = tier.thorough();
    let regexes: Vec<&str> = vec![
        "a", "^a", "a$", "^a$", "ab", "a.b", "a.*b", "^.*b$", "a|b", "^(a|b)$", "a+", "a*b", "ab?",
        "(ab)+", "^$", "", ".", "..", "^a.*", ".*a", "b.*$", "(a|b)(a|b)", "a\\.b", "^b*$", "A",
        "[ab]", "^[^a]", "a{2}", "\\w", "b$|^a", "\\W", "\\D", "^\\S+$", "a\\B", "(?-i:A)b", "\\pL", ".*a.*", ".*A", "b.*",
        // literal regexes with a non-ASCII letter: under the i prefix a regex folds case by Unicode rules
        "é", "É", "aé", "Éb",
    ];
    let needle_alpha: Vec<&str> = vec!["a", "b", "A", "É"];
    let hay_alpha: Vec<&str> = if th { vec!["a", "b", "A", "é", "É"] } else { vec!["a", "b", "A", "É"] };
    let needles = strings(&needle_alpha, if th { 3 } else { 2 });
    let hays = strings(&hay_alpha, if th { 5 } else { 4 });
    let docs: Vec<MObj> = hays.iter().map(|h| MObj::new().with("f", s(h))).collect();
    let pats = patterns(&needles, &regexes);
    // singles
    let singles: Vec<(Option<Single>, Stats)> = pats
        .par_iter()
        .map(|p| {
            let mut st = Stats::default();
            let r = eval_single(p, &hays, &docs, &mut st);
            if let Some(x) = &r {
                if x.eng.iter().any(|b| *b) && x.eng.iter().any(|b| !*b) {
                    st.nontrivial += 1;
                }
            }
            (r, st)
        })
        .collect();
    let mut table: Vec<Single> = vec![];
    for (r, st) in singles {
        rep.stats.merge(st);
        if let Some(x) = r {
            table.push(x);
        }
    }
    rep.stats.count("patterns_enumerated", pats.len() as u64);
    rep.stats.count("haystacks", hays.len() as u64);
    // lists: shorter haystack set to keep the product exhaustive
    let list_hay_n = hays.iter().filter(|h| h.chars().count() <= if th { 4 } else { 3 }).count();
    let lhays: Vec<String> = hays[..list_hay_n].to_vec();
    let ldocs: Vec<MObj> = docs[..list_hay_n].to_vec();
    // pairs: patterns with needles of length <= 2 (all kinds)
    let short: Vec<&Single> = table
        .iter()
        .filter(|t| t.pat.chars().count() <= if th { 6 } else { 5 })
        .collect();
    let pair_set: Vec<&Single> = if th { short.clone() } else { short.iter().step_by(2).cloned().collect() };
    let mut jobs: Vec<Vec<&Single>> = vec![];
    for (i, a) in pair_set.iter().enumerate() {
        for b in pair_set.iter().skip(i) {
            jobs.push(vec![*a, *b]);
        }
    }
    rep.stats.count("pairs", jobs.len() as u64);
    // triples / quads over a small mixed subset (every kind, needles <= 2, one regex pair)
    let sub_src = [
        "*a*", "*ab*", "i*a*", "i*ab*", "a*", "*a", "ia*", "i*a",
        "a", "ab", "ab*", "*ba", "ia", "iab", "i*B*",
        "?a", "?b$", "i?^a", "", "*", "'a'", "b", "*b", "b*", "iB", "?^a.*b$", "i?A|b", "aa", "*aa",
    ];
    let sub: Vec<&Single> = sub_src
        .iter()
        .filter_map(|p| table.iter().find(|t| t.pat == *p))
        .collect();
    let n3 = if th { sub.len() } else { 16.min(sub.len()) };
    let mut triples = 0u64;
    let mut quads = 0u64;
    for i in 0..n3 {
        for j in (i + 1)..n3 {
            for k in (j + 1)..n3 {
                jobs.push(vec![sub[i], sub[j], sub[k]]);
                triples += 1;
                if th {
                    for l in (k + 1)..n3 {
                        jobs.push(vec![sub[i], sub[j], sub[k], sub[l]]);
                        quads += 1;
                    }
                }
            }
        }
    }
    if !th {
        // a strided slice of quads keeps the quick tier under a few seconds
        let n4 = 12.min(sub.len());
        for i in 0..n4 {
            for j in (i + 1)..n4 {
                for k in (j + 1)..n4 {
                    for l in (k + 1)..n4 {
                        jobs.push(vec![sub[i], sub[j], sub[k], sub[l]]);
                        quads += 1;
                    }
                }
            }
        }
    }
    // lists with a repeated member (a de-duplication or pruning step must keep one copy)
    let mut dups = 0u64;
    for a in pair_set.iter().step_by(if th { 1 } else { 3 }) {
        for b in sub.iter().take(12) {
            jobs.push(vec![*a, *a, *b]);
            jobs.push(vec![*b, *a, *a]);
            dups += 2;
        }
        jobs.push(vec![*a, *a, *a]);
        dups += 1;
    }
    rep.stats.count("lists_with_repeated_members", dups);
    rep.stats.count("triples", triples);
    rep.stats.count("quads", quads);
    // repeated and reversed member orders for a few
    let parts: Vec<Stats> = jobs
        .par_iter()
        .map(|m| {
            // index into the (shorter) list haystacks: members carry full tables, prefix is shared
            check_list(m, &lhays, &ldocs, true)
        })
        .collect();
    for p in parts {
        rep.stats.merge(p);
    }
    // sampled supplement: long / multi-byte strings (not part of the exhaustiveness claim)
    let mut rng = Rng::new(crate::report::seed());
    let alpha = ["a", "b", "A", "B", "é", "É", "ß", "x", " ", "日"];
    let mut sup = Stats::default();
    for _ in 0..(if th { 4000 } else { 400 }) {
        let n = 1 + rng.below(3);
        let mut needle = String::new();
        for _ in 0..n {
            needle.push_str(alpha[rng.below(6)]);
        }
        let m = 5 + rng.below(40);
        let mut hay = String::new();
        for _ in 0..m {
            hay.push_str(alpha[rng.below(alpha.len())]);
        }
        if rng.below(2) == 0 {
            hay.push_str(&needle);
        }
        let form = rng.below(8);
        let p = match form {
            0 => needle.clone(),
            1 => format!("{}*", needle),
            2 => format!("*{}", needle),
            3 => format!("*{}*", needle),
            4 => format!("i{}", needle),
            5 => format!("i{}*", needle),
            6 => format!("i*{}", needle),
            _ => format!("i*{}*", needle),
        };
        let hs = vec![hay.clone()];
        let ds = vec![MObj::new().with("f", s(&hay))];
        let mut st = Stats::default();
        let _ = eval_single(&p, &hs, &ds, &mut st);
        sup.count("sampled_supplement_cases", 1);
        for v in st.violations {
            sup.push_violation(v);
        }
    }
    let sup_n = sup.counters.get("sampled_supplement_cases").cloned().unwrap_or(0);
    rep.extra.insert(
        "sampled_supplement".into(),
        json!({"cases": sup_n, "what": "seeded random long haystacks incl. multi-byte characters; not part of the exhaustive claim"}),
    );
    for v in sup.violations {
        rep.stats.push_violation(v);
    }
    // heavy regexes: each member compiles on its own, three or more of them together exceed the
    // regex crate's size limit for a set, so the optimiser's merge of an or-group has to fall back;
    // whatever it falls back to, the group matches exactly when some member matches on its own
    {
        let letters = ["a", "b", "c", "d", "e"];
        let member = |c: &str, ins: bool| format!("{}?^\\pL{{100}}-{}$", if ins { "i" } else { "" }, c);
        let mut rules: Vec<(String, Vec<&str>, bool)> = vec![];
        for k in 2..=5usize {
            for ins in [false, true] {
                let ms: Vec<String> = letters[..k].iter().map(|c| member(c, ins)).collect();
                let rows: String = ms.iter().map(|m| format!("  - f: '{}'\n", m)).collect();
                rules.push((format!("detection:\n  A:\n{}  condition: A\ntrue_positives: []\ntrue_negatives: []\n", rows), letters[..k].to_vec(), ins));
                let ids: String = ms.iter().enumerate().map(|(i, m)| format!("  M{}: {{f: '{}'}}\n", i, m)).collect();
                let cond: Vec<String> = (0..k).map(|i| format!("M{}", i)).collect();
                rules.push((format!("detection:\n{}  condition: {}\ntrue_positives: []\ntrue_negatives: []\n", ids, cond.join(" or ")), letters[..k].to_vec(), ins));
                let rows2: String = ms.iter().map(|m| format!("  - f: '{}'\n    g: x\n", m)).collect();
                rules.push((format!("detection:\n  A:\n{}  condition: A\ntrue_positives: []\ntrue_negatives: []\n", rows2), letters[..k].to_vec(), ins));
                let lst: Vec<String> = ms.iter().map(|m| format!("'{}'", m)).collect();
                rules.push((format!("detection:\n  A: {{f: [{}]}}\n  condition: A\ntrue_positives: []\ntrue_negatives: []\n", lst.join(", ")), letters[..k].to_vec(), ins));
            }
        }
        let sws: Vec<u8> = if th { (0..16).collect() } else { vec![0, 0b0010, 0b0110, 0b1111] };
        let parts: Vec<Stats> = rules
            .par_iter()
            .map(|(yaml, ls, ins)| {
                let mut st = Stats::default();
                let rule = match eng::load(yaml) {
                    Ok(r) => r,
                    Err(_) => {
                        st.count("heavy_regex_rules_rejected_at_load", 1);
                        return st;
                    }
                };
                st.nontrivial += 1;
                for sw in &sws {
                    let r = if *sw == 0 {
                        rule.clone()
                    } else {
                        match eng::optimise_with(&rule, *sw, &[]) {
                            Ok((r, _)) => r,
                            Err(p) => {
                                st.push_violation(Violation {
                                    signature: "heavy-regex-group:panic-in-optimise".into(),
                                    witness: format!("{} ; rule {}", p, crate::c01::one_line(yaml)),
                                    replay: json!({"kind":"optimise","rule_yaml":yaml,"sw_bits":sw,"hash_order_choices":[]}),
                                });
                                continue;
                            }
                        }
                    };
                    st.states += 1;
                    for c in ["a", "b", "c", "d", "e", "f", "A", "C", "E"] {
                        for g in [true, false] {
                            let mut d = MObj::new().with("f", s(&format!("{}-{}", "x".repeat(100), c)));
                            if g {
                                d.set("g", s("x"));
                            }
                            let needs_g = yaml.contains("g: x");
                            let hit = ls.iter().any(|l| *l == c || (*ins && l.eq_ignore_ascii_case(c)));
                            let exp = hit && (!needs_g || g);
                            let got = eng::matches(&r, &d);
                            st.evaluations += 1;
                            st.transitions += 1;
                            st.traces += 1;
                            if got != Ok(exp) {
                                st.push_violation(Violation {
                                    signature: format!("heavy-regex-group:{}", if got.is_err() { "panic-in-matches" } else if exp { "a-member-that-matches-on-its-own-is-lost" } else { "matches-although-no-member-does" }),
                                    witness: format!("{:?}, expected {} on f = x{{100}}-{}{} after optimise({}) ; rule {}", got, exp, c, if g { ", g = x" } else { "" }, eng::sw_name(*sw), crate::c01::one_line(yaml).chars().take(200).collect::<String>()),
                                    replay: json!({"kind":"optimise","rule_yaml":yaml,"sw_bits":sw,"hash_order_choices":[],"document":crate::report::mobj_to_json(&d)}),
                                });
                            }
                        }
                    }
                }
                st
            })
            .collect();
        for p in parts {
            rep.stats.merge(p);
        }
        rep.stats.count("heavy_regex_group_rules", rules.len() as u64);
    }
    rep.stats.sample(json!({"pattern":"i*ab*","haystack":"bAB","reference":true}));
    rep.stats.sample(json!({"list":["a*","*ba","i*B*","?b$"],"haystack":"aab","reference":"OR of the members"}));
    rep.rule = "patterns: every needle over the alphabet up to the length bound in every relation (exact, x*, *x, *x*, quoted literal, each with and without the i prefix) plus a 30-regex set (each with/without i); haystacks: every string over the alphabet up to the length bound; singles: full product against the naive relation on &str (ASCII case folding); lists: all pairs of the short patterns (incl. a pattern with itself), lists with a member repeated next to a third one, all triples and quads of a 28-pattern mixed subset, evaluated as loaded and after default optimisation, against the OR of the members' reference results and the OR of the engine's own single-member verdicts. non-trivial = pattern/list has a matching and a non-matching haystack".into();
    rep.assumptions = vec![
        "regexes outside the small backtracking matcher's subset fall back to the regex crate as oracle".into(),
    ];
    rep.finish()
}
