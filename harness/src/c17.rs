//! C17: the order of operands never decides whether an and/or is true.

use rayon::prelude::*;
use serde_json::json;

use crate::c01::one_line;
use crate::eng;
use crate::gen::{self, e, int, list, st, Body, Entry, RuleSpec, Val};
use crate::report::{Report, Rng, Stats, Tier, Violation};

pub fn permutations(n: usize) -> Vec<Vec<usize>> {
    if n == 1 {
        return vec![vec![0]];
    }
    let mut out = vec![];
    for p in permutations(n - 1) {
        for i in 0..n {
            let mut q = p.clone();
            q.insert(i, n - 1);
            out.push(q);
        }
    }
    out
}

fn combos<T: Clone>(items: &[T], k: usize) -> Vec<Vec<T>> {
    if k == 0 {
        return vec![vec![]];
    }
    let mut out = vec![];
    for (i, x) in items.iter().enumerate() {
        for mut rest in combos(&items[i + 1..], k - 1) {
            rest.insert(0, x.clone());
            out.push(rest);
        }
    }
    out
}

/// a commutative position: builds the rule for a given operand order
struct Position {
    kind: String,
    arity: usize,
    /// documents added to the generated product (shapes the generic product does not reach)
    extra: Vec<crate::mdoc::MObj>,
    build: Box<dyn Fn(&[usize]) -> RuleSpec + Send + Sync>,
}

fn check(pos: &Position, level: u8) -> Stats {
    let mut st = Stats::default();
    let perms = permutations(pos.arity);
    let base = (pos.build)(&perms[0]);
    let mut docs = gen::docs_for(&base, level, 300);
    docs.extend(pos.extra.iter().cloned());
    let mut reference: Option<(Vec<bool>, Vec<bool>, String)> = None;
    let mut t = false;
    let mut f = false;
    for p in &perms {
        let spec = (pos.build)(p);
        let yaml = spec.yaml();
        let rule = match eng::load(&yaml) {
            Ok(r) => r,
            Err(_) => {
                st.count("orders_rejected_by_loader", 1);
                if reference.is_some() {
                    st.push_violation(Violation {
                        signature: format!("{}:one-order-loads-another-does-not", pos.kind),
                        witness: format!("order {:?} rejected: {}", p, one_line(&yaml)),
                        replay: json!({"kind":"load","rule_yaml":yaml}),
                    });
                }
                continue;
            }
        };
        let opt = eng::optimise_with(&rule, eng::SW_DEFAULT, &[]).ok().map(|x| x.0);
        let v: Vec<bool> = docs.iter().map(|d| eng::val3(&rule, d) == Ok(1)).collect();
        let vo: Vec<bool> = match &opt {
            Some(o) => docs.iter().map(|d| eng::val3(o, d) == Ok(1)).collect(),
            None => v.clone(),
        };
        st.states += 1;
        st.transitions += 2 * docs.len() as u64;
        st.traces += docs.len() as u64;
        st.evaluations += docs.len() as u64;
        if v.iter().any(|b| *b) {
            t = true;
        }
        if v.iter().any(|b| !*b) {
            f = true;
        }
        match &reference {
            None => reference = Some((v, vo, yaml)),
            Some((rv, rvo, ryaml)) => {
                for (which, a, b) in [("as-loaded", rv, &v), ("optimised", rvo, &vo)] {
                    if let Some(i) = (0..docs.len()).find(|i| a[*i] != b[*i]) {
                        st.push_violation(Violation {
                            signature: format!("{}x{}:{}:true-in-one-order-only", pos.kind, pos.arity, which),
                            witness: format!(
                                "{} on {}: written order gives {} , order {:?} gives {} ; {} vs {}",
                                which,
                                docs[i].show(),
                                a[i],
                                p,
                                b[i],
                                one_line(ryaml),
                                one_line(&yaml)
                            ),
                            replay: json!({"kind":"permutation","rule_yaml":ryaml,"permuted_rule_yaml":yaml,"document":crate::report::mobj_to_json(&docs[i]),"variant":which}),
                        });
                    }
                }
            }
        }
    }
    if t && f {
        st.nontrivial += 1;
    }
    st
}

fn list_positions(members: &[Val], k: usize, keys: &[&'static str], out: &mut Vec<Position>) {
    for c in combos(members, k) {
        for key in keys {
            let c2 = c.clone();
            let key2: &'static str = key;
            out.push(Position {
                kind: format!("list-under-{}", key2.split('(').next().unwrap_or("k")),
                arity: k,
                extra: vec![],
                build: Box::new(move |p| {
                    RuleSpec::one(Body::Map(vec![e(
                        key2,
                        list(p.iter().map(|i| c2[*i].clone()).collect()),
                    )]))
                }),
            });
        }
    }
}

pub fn run(tier: Tier) -> i32 {
    let mut rep = Report::new("C17", tier);
    let th = tier.thorough();
    let level = if th { 1 } else { 0 };
    let mut positions: Vec<Position> = vec![];
    let mem = gen::list_members(level);
    // list members
    list_positions(&mem, 2, &["f", "all(f)", "of(f, 1)", "of(f, 2)", "str(f)"], &mut positions);
    let m3: Vec<Val> = mem.iter().take(if th { 14 } else { 10 }).cloned().collect();
    list_positions(&m3, 3, &["f", "all(f)", "of(f, 2)"], &mut positions);
    let m4: Vec<Val> = mem.iter().take(if th { 10 } else { 8 }).cloned().collect();
    list_positions(&m4, 4, &["f", "of(f, 2)", "of(f, 3)"], &mut positions);
    // sequence rows / mapping entries / condition operands over the entry pool
    let pool: Vec<Entry> = gen::entry_pool(level);
    let distinct_keys = |c: &[Entry]| {
        let mut k: Vec<&String> = c.iter().map(|x| &x.key).collect();
        k.sort();
        k.dedup();
        k.len() == c.len()
    };
    for k in 2..=(if th { 4 } else { 3 }) {
        let take = match k {
            2 => pool.len(),
            3 => if th { 14 } else { 10 },
            _ => 9,
        };
        for c in combos(&pool[..take.min(pool.len())], k) {
            let c1 = c.clone();
            positions.push(Position {
                kind: "sequence-rows".into(),
                arity: k,
                extra: vec![],
                build: Box::new(move |p| RuleSpec::one(Body::Seq(p.iter().map(|i| vec![c1[*i].clone()]).collect()))),
            });
            if distinct_keys(&c) {
                let c2 = c.clone();
                positions.push(Position {
                    kind: "mapping-entries".into(),
                    arity: k,
                    extra: vec![],
                    build: Box::new(move |p| RuleSpec::one(Body::Map(p.iter().map(|i| c2[*i].clone()).collect()))),
                });
            }
            for op in ["or", "and"] {
                let c3 = c.clone();
                positions.push(Position {
                    kind: format!("condition-{}", op),
                    arity: k,
                    extra: vec![],
                    build: Box::new(move |p| {
                        let names = ["A", "B", "C", "D"];
                        RuleSpec {
                            idents: (0..c3.len())
                                .map(|i| (names[i].to_string(), Body::Map(vec![c3[i].clone()])))
                                .collect(),
                            cond: p.iter().map(|i| names[*i]).collect::<Vec<_>>().join(&format!(" {} ", op)),
                        }
                    }),
                });
            }
        }
    }
    // several nested blocks over the same container field joined by and/or (the optimiser merges
    // them into one block that is evaluated per array element): operand order must not matter,
    // in particular on arrays of objects where different elements satisfy different blocks
    {
        use crate::mdoc::{arr, obj, s as ms, MObj, MVal};
        let blocks: Vec<Entry> = vec![
            e("n", gen::map(vec![e("x", st("a"))])),
            e("n", gen::map(vec![e("y", st("b"))])),
            e("n", gen::map(vec![e("z", st("c"))])),
            e("n", gen::map(vec![e("x", st("*"))])),
            e("f", st("a*")),
        ];
        let o = |v: MVal| match v {
            MVal::Obj(o) => o,
            _ => MObj::new(),
        };
        let xa = || obj(vec![("x", ms("a"))]);
        let yb = || obj(vec![("y", ms("b"))]);
        let zc = || obj(vec![("z", ms("c"))]);
        let extra: Vec<MObj> = vec![
            o(obj(vec![("n", arr(vec![xa(), yb()]))])),
            o(obj(vec![("n", arr(vec![xa(), yb()])), ("f", ms("ab"))])),
            o(obj(vec![("n", arr(vec![yb(), xa()])), ("f", ms("ab"))])),
            o(obj(vec![("n", arr(vec![xa(), yb(), zc()])), ("f", ms("ab"))])),
            o(obj(vec![("n", arr(vec![obj(vec![("x", ms("a")), ("y", ms("b"))])])), ("f", ms("ab"))])),
            o(obj(vec![("n", obj(vec![("x", ms("a")), ("y", ms("b"))])), ("f", ms("ab"))])),
            o(obj(vec![("n", arr(vec![xa()])), ("f", ms("ab"))])),
            o(obj(vec![("n", arr(vec![yb(), zc()])), ("f", ms("b"))])),
            o(obj(vec![("n", arr(vec![])), ("f", ms("ab"))])),
            o(obj(vec![("n", arr(vec![xa(), ms("a"), MVal::Int(1)])), ("f", ms("ab"))])),
        ];
        for k in 2..=4usize {
            for c in combos(&blocks, k) {
                for op in ["and", "or"] {
                    let c3 = c.clone();
                    positions.push(Position {
                        kind: format!("condition-{}-over-nested-blocks", op),
                        arity: k,
                        extra: extra.clone(),
                        build: Box::new(move |p| {
                            let names = ["A", "B", "C", "D"];
                            RuleSpec {
                                idents: (0..c3.len())
                                    .map(|i| (names[i].to_string(), Body::Map(vec![c3[i].clone()])))
                                    .collect(),
                                cond: p.iter().map(|i| names[*i]).collect::<Vec<_>>().join(&format!(" {} ", op)),
                            }
                        }),
                    });
                }
            }
        }
    }
    // entries of a row inside a sequence whose other row shares a field (the or-group becomes a
    // matrix); rows may constrain one field twice through different key forms
    let cells: Vec<Entry> = vec![
        e("f", st("a*")),
        e("str(f)", st("*b")),
        e("g", st("x")),
        e("int(g)", st(">=1")),
        e("g", st("<3")),
        e("n", gen::map(vec![e("x", st("a"))])),
        e("not(f)", st("ab")),
        e("h", int(1)),
    ];
    let others: Vec<Vec<Entry>> = vec![vec![e("f", st("*a*"))], vec![e("g", int(2)), e("f", st("b*"))], vec![e("h", int(2))]];
    for k in 2..=3usize {
        for c in combos(&cells, k) {
            if !distinct_keys(&c) {
                continue;
            }
            for o in &others {
                let c1 = c.clone();
                let o1 = o.clone();
                positions.push(Position {
                    kind: "row-entries-in-a-sequence".into(),
                    arity: k,
                    extra: vec![],
                    build: Box::new(move |p| {
                        RuleSpec::one(Body::Seq(vec![p.iter().map(|i| c1[*i].clone()).collect(), o1.clone()]))
                    }),
                });
                let c2 = c.clone();
                let o2 = o.clone();
                positions.push(Position {
                    kind: "row-entries-in-a-sequence".into(),
                    arity: k,
                    extra: vec![],
                    build: Box::new(move |p| {
                        RuleSpec::one(Body::Seq(vec![o2.clone(), p.iter().map(|i| c2[*i].clone()).collect(), vec![e("f", st("zz"))]]))
                    }),
                });
            }
        }
    }
    // a case-sensitive pair next to its case-insensitive twins (same needles, same order)
    {
        let pats = ["a*", "*b", "*a*", "ab", "*ab*", "b*"];
        for (i, p1) in pats.iter().enumerate() {
            for p2 in pats.iter().skip(i + 1) {
                let c: Vec<Val> = vec![st(p1), st(p2), st(&format!("i{}", p1)), st(&format!("i{}", p2))];
                for key in ["f", "str(f)"] {
                    let c1 = c.clone();
                    positions.push(Position {
                        kind: "list-with-case-twins".into(),
                        arity: 4,
                        extra: vec![],
                        build: Box::new(move |p| {
                            RuleSpec::one(Body::Map(vec![e(key, list(p.iter().map(|i| c1[*i].clone()).collect()))]))
                        }),
                    });
                }
                // the same as rows of a sequence: two rows with two needles each
                let (a1, a2) = (p1.to_string(), p2.to_string());
                positions.push(Position {
                    kind: "sequence-rows-with-case-twins".into(),
                    arity: 2,
                    extra: vec![],
                    build: Box::new(move |p| {
                        let rows = [
                            vec![e("f", list(vec![st(&a1), st(&a2)]))],
                            vec![e("f", list(vec![st(&format!("i{}", a1)), st(&format!("i{}", a2))]))],
                        ];
                        RuleSpec::one(Body::Seq(p.iter().map(|i| rows[*i].clone()).collect()))
                    }),
                });
            }
        }
    }
    rep.stats.count("commutative_positions", positions.len() as u64);
    let parts: Vec<Stats> = positions.par_iter().map(|p| check(p, 1)).collect();
    for p in parts {
        rep.stats.merge(p);
    }
    // sampled supplement: 5 and 6 operands, random permutations
    let mut rng = Rng::new(crate::report::seed());
    let n = if th { 600 } else { 60 };
    let mut sup = 0;
    for _ in 0..n {
        let k = 5 + rng.below(2);
        let mut c = vec![];
        for _ in 0..k {
            c.push(mem[rng.below(mem.len())].clone());
        }
        let mut perm: Vec<usize> = (0..k).collect();
        for i in (1..k).rev() {
            perm.swap(i, rng.below(i + 1));
        }
        let base = RuleSpec::one(Body::Map(vec![e("f", list(c.clone()))]));
        let permd = RuleSpec::one(Body::Map(vec![e("f", list(perm.iter().map(|i| c[*i].clone()).collect()))]));
        if let (Ok(a), Ok(b)) = (eng::load(&base.yaml()), eng::load(&permd.yaml())) {
            for d in gen::docs_for(&base, 2, 300) {
                sup += 1;
                if (eng::val3(&a, &d) == Ok(1)) != (eng::val3(&b, &d) == Ok(1)) {
                    rep.stats.push_violation(Violation {
                        signature: "list-under-f:sampled-long-list:true-in-one-order-only".into(),
                        witness: format!("{} vs {} on {}", one_line(&base.yaml()), one_line(&permd.yaml()), d.show()),
                        replay: json!({"kind":"permutation","rule_yaml":base.yaml(),"permuted_rule_yaml":permd.yaml(),"document":crate::report::mobj_to_json(&d)}),
                    });
                }
            }
        }
    }
    rep.extra.insert("sampled_supplement".into(), json!({"cases": sup, "what": "lists of 5-6 random members under one random permutation; not part of the exhaustive claim"}));
    rep.stats.sample(json!({"position":"list under all(f)","members":["a*","ia","?b$"],"orders":6}));
    rep.stats.sample(json!({"position":"mapping entries","entries":["f: a*","g: x","n: {x: a}"],"orders":6}));
    rep.rule = "commutative positions of 2-4 operands: list members (mixed kinds: strings of every batching kind, case-insensitive strings, regexes, numbers, comparisons, booleans, nested mappings) under k / all(k) / of(k,n) / str(k); rows of a sequence; entries of a mapping; operands of or / and chains in the condition - every combination over the member / entry pools x ALL permutations x the full document product, as loaded and after default optimisation. Oracle: whether the permuted node is true is the same in every order (and every order loads iff the written one does). non-trivial = the position is true on some document and not on another".into();
    rep.assumptions = vec![];
    // wide or-groups (64..300, 2048 distinct fields) with their rows in written and in reversed order:
    // both must give the verdict known by construction, as loaded and optimised
    rep.stats.merge(crate::wide::run(tier.thorough(), false));
    rep.finish()
}
