//! C13: validate() agrees with matches() on the rule's own examples.

use rayon::prelude::*;
use serde_json::json;
use serde_yaml::Value as Y;
use tau_engine::{ErrorKind, Rule};

use crate::c01::one_line;
use crate::eng;
use crate::gen::{self, RuleSpec};
use crate::mdoc::{self, s, MObj};
use crate::report::{catch, Report, Stats, Tier, Violation};

#[derive(Clone)]
struct Ex {
    y: Y,
    /// unique text that identifies this example in an error message (None: cannot be marked)
    marker: Option<String>,
    /// Some(doc) for mappings
    doc: Option<MObj>,
    label: &'static str,
}

fn entries(pos_doc: &Option<MObj>, neg_doc: &Option<MObj>, side: &str) -> Vec<Ex> {
    let mut out = vec![];
    let mut n = 0;
    let mut mk = |label: &'static str, d: Option<MObj>, y: Option<Y>| {
        n += 1;
        let marker = format!("mark{}{}", side, n);
        match d {
            Some(mut d) => {
                d.set("zz", s(&marker));
                out.push(Ex {
                    y: Y::Mapping(mdoc::to_yaml_map(&d)),
                    marker: Some(marker),
                    doc: Some(d),
                    label,
                });
            }
            None => {
                let (y, marker) = match y {
                    Some(y) => (y, None),
                    None => (Y::String(marker.clone()), Some(marker)),
                };
                out.push(Ex {
                    y,
                    marker,
                    doc: None,
                    label,
                });
            }
        }
    };
    if let Some(d) = pos_doc {
        mk("matching", Some(d.clone()), None);
    }
    if let Some(d) = neg_doc {
        mk("non-matching", Some(d.clone()), None);
    }
    mk("empty-mapping", Some(MObj::new()), None);
    // a long example full of multi-byte text (whatever the error message does with it)
    {
        let mut d = neg_doc.clone().unwrap_or_else(MObj::new);
        for (i, unit) in ["é", "日本", "a€", "ß"].iter().enumerate() {
            d.set(&format!("long{}", i), s(&unit.repeat(90 + i)));
        }
        mk("long-multibyte-non-matching", Some(d), None);
    }
    // a YAML merge key is a literal "<<" entry for matches(); validate() must see the same document
    for (d, label) in [(pos_doc, "merge-key-over-matching"), (neg_doc, "merge-key-over-non-matching")] {
        if let Some(d) = d {
            let mut m = MObj::new();
            m.set("<<", crate::mdoc::MVal::Obj(d.clone()));
            mk(label, Some(m), None);
        }
    }
    mk("string", None, None);
    mk("int", None, Some(Y::Number(1.into())));
    mk("null", None, Some(Y::Null));
    mk("sequence", None, Some(Y::Sequence(vec![Y::String("a".into())])));
    mk("bool", None, Some(Y::Bool(true)));
    // the same documents unmarked: structurally identical in both lists
    if let Some(d) = pos_doc {
        out.push(Ex { y: Y::Mapping(mdoc::to_yaml_map(d)), marker: None, doc: Some(d.clone()), label: "matching-unmarked" });
    }
    if let Some(d) = neg_doc {
        out.push(Ex { y: Y::Mapping(mdoc::to_yaml_map(d)), marker: None, doc: Some(d.clone()), label: "non-matching-unmarked" });
    }
    out.push(Ex { y: Y::String("same-in-both-lists".into()), marker: None, doc: None, label: "string-unmarked" });
    // a YAML tag on a mapping does not change what the mapping contains (as_mapping looks through it)
    for (d, label) in [(pos_doc, "tagged-matching"), (neg_doc, "tagged-non-matching")] {
        if let Some(d) = d {
            let marker = format!("mark{}tag{}", side, label.len());
            let mut d = d.clone();
            d.set("zz", s(&marker));
            out.push(Ex {
                y: Y::Tagged(Box::new(serde_yaml::value::TaggedValue {
                    tag: serde_yaml::value::Tag::new("event"),
                    value: Y::Mapping(mdoc::to_yaml_map(&d)),
                })),
                marker: Some(marker),
                doc: Some(d),
                label,
            });
        }
    }
    out
}

fn lists(e: &[Ex], maxlen: usize) -> Vec<Vec<Ex>> {
    let mut out = vec![vec![]];
    let mut cur: Vec<Vec<Ex>> = vec![vec![]];
    for _ in 0..maxlen {
        let mut next = vec![];
        for c in &cur {
            for x in e {
                let mut n = c.clone();
                n.push(x.clone());
                next.push(n);
            }
        }
        out.extend(next.iter().cloned());
        cur = next;
    }
    out
}

fn check_spec(spec: &RuleSpec, th: bool) -> Stats {
    let mut st = Stats::default();
    let yaml = spec.yaml();
    let base_rule = match eng::load(&yaml) {
        Ok(r) => r,
        Err(_) => return st,
    };
    let docs = gen::docs_for(spec, 1, 200);
    let pos = docs.iter().find(|d| eng::matches(&base_rule, *d) == Ok(true)).cloned();
    let neg = docs
        .iter()
        .find(|d| !d.0.is_empty() && eng::matches(&base_rule, *d) == Ok(false))
        .cloned();
    let tp_e = entries(&pos, &neg, "p");
    let tn_e = entries(&pos, &neg, "n");
    let tps = lists(&tp_e, 2);
    // thorough: every single negative entry, and every pair over the first nine kinds
    let tns = if th {
        let mut v = lists(&tn_e, 1);
        v.extend(lists(&tn_e[..tn_e.len().min(9)], 2).into_iter().filter(|l| l.len() == 2));
        v
    } else {
        lists(&tn_e, 1)
    };
    let base_y: Y = serde_yaml::from_str(&yaml).unwrap();
    let sws: Vec<u8> = if th { (0..16).collect() } else { vec![0, 15, 2, 9] };
    for tp in &tps {
        for tn in &tns {
            let mut v = base_y.clone();
            if let Y::Mapping(m) = &mut v {
                m.insert(
                    Y::String("true_positives".into()),
                    Y::Sequence(tp.iter().map(|e| e.y.clone()).collect()),
                );
                m.insert(
                    Y::String("true_negatives".into()),
                    Y::Sequence(tn.iter().map(|e| e.y.clone()).collect()),
                );
            }
            let text = serde_yaml::to_string(&v).unwrap_or_default();
            let rule = match catch(|| Rule::from_value(v)) {
                Ok(Ok(r)) => r,
                Ok(Err(_)) => {
                    // a malformed example may also be refused at load time
                    st.count("rejected_at_load", 1);
                    continue;
                }
                Err(msg) => {
                    st.push_violation(Violation {
                        signature: "panic-at-load-with-examples".into(),
                        witness: format!("{} ; rule {}", msg, one_line(&yaml)),
                        replay: json!({"kind":"validate","rule_yaml":text}),
                    });
                    continue;
                }
            };
            for sw in &sws {
                let r = if *sw == 0 {
                    rule.clone()
                } else {
                    match eng::optimise_with(&rule, *sw, &[]) {
                        Ok((r, _)) => r,
                        Err(_) => continue,
                    }
                };
                // expected from matches()
                let mut failing: Vec<&Ex> = vec![];
                let mut passing: Vec<&Ex> = vec![];
                for e in tp {
                    let ok = match &e.doc {
                        Some(d) => eng::matches(&r, d) == Ok(true),
                        None => false,
                    };
                    if ok {
                        passing.push(e)
                    } else {
                        failing.push(e)
                    }
                }
                for e in tn {
                    let ok = match &e.doc {
                        Some(d) => eng::matches(&r, d) == Ok(false),
                        None => false,
                    };
                    if ok {
                        passing.push(e)
                    } else {
                        failing.push(e)
                    }
                }
                let got = catch(|| r.validate());
                st.states += 1;
                st.transitions += 1 + (tp.len() + tn.len()) as u64;
                st.traces += 1;
                st.evaluations += 1;
                if !failing.is_empty() {
                    st.count("cases_expecting_error", 1);
                }
                let shape = format!(
                    "tp[{}] tn[{}]",
                    tp.iter().map(|e| e.label).collect::<Vec<_>>().join(","),
                    tn.iter().map(|e| e.label).collect::<Vec<_>>().join(",")
                );
                let mut bad: Option<String> = None;
                match &got {
                    Err(msg) => bad = Some(format!("validate-panics:{}", msg.chars().take(40).collect::<String>())),
                    Ok(Ok(true)) => {
                        if !failing.is_empty() {
                            bad = Some("ok-although-an-example-fails".into());
                        }
                    }
                    Ok(Ok(false)) => bad = Some("returns-Ok(false)".into()),
                    Ok(Err(e)) => {
                        if failing.is_empty() {
                            bad = Some("error-although-every-example-passes".into());
                        } else if !matches!(e.kind(), ErrorKind::Validation) {
                            bad = Some("error-is-not-a-validation-error".into());
                        } else {
                            let msg = format!("{}", e);
                            // the naming oracle applies when the message identifies examples by
                            // their content (it does today); a message format that does not
                            // quote example content at all is not judged
                            let content_based = tp
                                .iter()
                                .chain(tn.iter())
                                .filter_map(|x| x.marker.as_ref())
                                .any(|m| msg.contains(m.as_str()));
                            let has_marked_failure = failing.iter().any(|f| f.marker.is_some());
                            if !content_based && has_marked_failure {
                                st.count("errors_not_quoting_example_content(not judged)", 1);
                            }
                            for f in failing.iter().filter(|_| content_based) {
                                if let Some(m) = &f.marker {
                                    if !msg.contains(m.as_str()) {
                                        bad = Some("error-does-not-name-a-failing-example".into());
                                    }
                                }
                            }
                            for p in &passing {
                                if let Some(m) = &p.marker {
                                    if msg.contains(m.as_str()) {
                                        bad = Some("error-names-a-passing-example".into());
                                    }
                                }
                            }
                        }
                    }
                }
                if let Some(kind) = bad {
                    let first_bad = failing.first().map(|e| e.label).unwrap_or("-");
                    st.push_violation(Violation {
                        signature: format!("{} (first failing example kind: {})", kind, first_bad),
                        witness: format!(
                            "{} ; switches {} ; validate() = {} ; failing by matches(): {:?} ; rule {}",
                            shape,
                            eng::sw_name(*sw),
                            match &got {
                                Ok(Ok(b)) => format!("Ok({})", b),
                                Ok(Err(e)) => format!("Err({})", e).chars().take(160).collect(),
                                Err(m) => format!("PANIC {}", m),
                            },
                            failing.iter().map(|e| e.label).collect::<Vec<_>>(),
                            one_line(&yaml)
                        ),
                        replay: json!({"kind":"validate","rule_yaml":text,"sw_bits":sw}),
                    });
                }
            }
        }
    }
    if pos.is_some() && neg.is_some() {
        st.nontrivial += 1;
    }
    st
}

// ---- histories: validate() on a rule value that is edited between calls -------------------
// Rule's detection / true_positives / true_negatives are public fields and Rule is Clone, so a
// user can validate, edit and validate again. Whatever happened before, validate() must answer
// as a freshly loaded rule with the same fields does.

pub const HIST_OPS: [&str; 10] = [
    "validate", "examples:=valid", "examples:=positive-fails", "examples:=negative-matches", "examples:=malformed",
    "examples:=empty", "optimise", "clone", "detection:=own", "detection:=never-matching",
];

fn hist_examples(idx: usize, pos: &MObj, neg: &MObj) -> (Vec<Y>, Vec<Y>) {
    let mark = |d: &MObj, m: &str| {
        let mut d = d.clone();
        d.set("zz", s(m));
        Y::Mapping(mdoc::to_yaml_map(&d))
    };
    match idx {
        0 => (vec![mark(pos, "markp1")], vec![mark(neg, "markn1")]),
        1 => (vec![mark(pos, "markp1"), mark(neg, "markp2")], vec![]),
        2 => (vec![mark(pos, "markp1")], vec![mark(neg, "markn1"), mark(pos, "markn2")]),
        3 => (vec![Y::String("markp3".into())], vec![mark(neg, "markn1")]),
        _ => (vec![], vec![]),
    }
}

fn hist_class(r: &Rule) -> String {
    match catch(|| r.validate()) {
        Ok(Ok(b)) => format!("Ok({})", b),
        Ok(Err(e)) => {
            let msg = format!("{}", e);
            let named: Vec<&str> = ["markp1", "markp2", "markp3", "markn1", "markn2"]
                .into_iter()
                .filter(|m| msg.contains(m))
                .collect();
            format!("Err(validation={}, names {:?})", matches!(e.kind(), ErrorKind::Validation), named)
        }
        Err(p) => format!("PANIC({})", p.chars().take(40).collect::<String>()),
    }
}

const NEVER: &str = "detection:\n  A: {zz9: nothere}\n  condition: A\ntrue_positives: []\ntrue_negatives: []\n";

/// Applies the operations to one real rule value; returns (its final validate() class, the class of
/// a fresh rule carrying the same fields), or None when the base rule does not load.
pub fn run_history(yaml: &str, pos: &MObj, neg: &MObj, ops: &[u8]) -> Option<(String, String)> {
    let own = eng::load(yaml).ok()?;
    let never = eng::load(NEVER).ok()?;
    let set = |r: &mut Rule, idx: usize| {
        let (tp, tn) = hist_examples(idx, pos, neg);
        r.true_positives = tp;
        r.true_negatives = tn;
    };
    let mut real = own.clone();
    set(&mut real, 0);
    // model of the public state
    let (mut ex, mut det, mut det_optimised, mut flag) = (0usize, 0usize, false, false);
    for op in ops {
        match *op {
            0 => {
                let _ = catch(|| real.validate().is_ok());
            }
            1..=5 => {
                ex = (*op - 1) as usize;
                set(&mut real, ex);
            }
            6 => {
                if let Ok((r, _)) = eng::optimise_with(&real, eng::SW_DEFAULT, &[]) {
                    real = r;
                }
                if !flag {
                    flag = true;
                    det_optimised = true;
                }
            }
            7 => real = real.clone(),
            8 | 9 => {
                det = (*op - 8) as usize;
                real.detection = if det == 0 { own.detection.clone() } else { never.detection.clone() };
                det_optimised = false;
            }
            _ => {}
        }
    }
    let mut fresh = if det == 0 { eng::load(yaml).ok()? } else { eng::load(NEVER).ok()? };
    if det_optimised {
        fresh = eng::optimise_with(&fresh, eng::SW_DEFAULT, &[]).ok()?.0;
    }
    set(&mut fresh, ex);
    Some((hist_class(&real), hist_class(&fresh)))
}

fn check_histories(spec: &RuleSpec, depth: usize) -> Stats {
    let mut st = Stats::default();
    let yaml = spec.yaml();
    let base_rule = match eng::load(&yaml) {
        Ok(r) => r,
        Err(_) => return st,
    };
    let docs = gen::docs_for(spec, 1, 200);
    let pos = docs.iter().find(|d| eng::matches(&base_rule, *d) == Ok(true)).cloned();
    let neg = docs.iter().find(|d| !d.0.is_empty() && eng::matches(&base_rule, *d) == Ok(false)).cloned();
    let (pos, neg) = match (pos, neg) {
        (Some(p), Some(n)) => (p, n),
        _ => return st,
    };
    st.nontrivial += 1;
    let nops = HIST_OPS.len() as u64;
    let mut outcomes = std::collections::BTreeSet::new();
    for len in 1..=depth {
        for i in 0..nops.pow(len as u32) {
            let mut ops = vec![0u8; len];
            let mut m = i;
            for o in ops.iter_mut() {
                *o = (m % nops) as u8;
                m /= nops;
            }
            let (real, fresh) = match run_history(&yaml, &pos, &neg, &ops) {
                Some(x) => x,
                None => continue,
            };
            st.states += 1;
            st.transitions += len as u64 + 2;
            st.traces += 1;
            st.evaluations += 1;
            outcomes.insert(real.clone());
            if real != fresh {
                let names: Vec<&str> = ops.iter().map(|o| HIST_OPS[*o as usize]).collect();
                st.push_violation(Violation {
                    signature: format!("history:validate-differs-from-a-fresh-rule-with-the-same-fields:after-{}", names.last().unwrap_or(&"")),
                    witness: format!("after {:?} validate() = {} ; a fresh rule with the same fields gives {} ; rule {}", names, real, fresh, one_line(&yaml)),
                    replay: json!({"kind":"validate-history","rule_yaml":yaml,"ops":ops,"op_names":names,"positive":crate::report::mobj_to_json(&pos),"negative":crate::report::mobj_to_json(&neg)}),
                });
            }
        }
    }
    st.count("history_distinct_outcomes(summed over rules)", outcomes.len() as u64);
    st
}

// ---- long example lists -------------------------------------------------------------------
// The pair enumeration above keeps the lists at 0-2 entries. Here the *length* is the dimension:
// lists of 3..100 entries (around every power of two a size-dependent shortcut could pick), every
// split between positives and negatives, one failing entry at the first / middle / last position
// or none. The rules include the ones whose optimised form is known to decide some documents
// differently (double negation, reordered conjunctions), so a validate() that consults another
// form of the rule than matches() does is visible.
fn long_list_rules() -> Vec<(String, Vec<MObj>)> {
    let r = |det: &str, cond: &str| format!("detection:\n{}  condition: {}\ntrue_positives: []\ntrue_negatives: []\n", det, cond);
    let docs = vec![
        MObj::new(),
        MObj::new().with("f", s("ab")),
        MObj::new().with("f", s("x")),
        MObj::new().with("g", s("x")),
        MObj::new().with("f", s("ab")).with("g", s("x")),
        MObj::new().with("n", mdoc::obj(vec![("x", s("b"))])),
        MObj::new().with("n", mdoc::obj(vec![("x", s("a"))])).with("f", s("ab")),
        MObj::new().with("f", mdoc::MVal::Int(1)),
    ];
    vec![
        (r("  A: {f: 'a*'}\n", "A"), docs.clone()),
        (r("  A: {'not(f)': x}\n", "not A"), docs.clone()),
        (r("  A: {g: x}\n  B: {'not(f)': 'a*'}\n", "A and not B"), docs.clone()),
        (r("  A:\n  - {f: 'a*'}\n  - {n: {x: a}, f: 'a*'}\n", "not A"), docs.clone()),
        (r("  A: {n: {x: a}}\n  B: {f: '*b', g: x}\n", "not (A and B)"), docs.clone()),
        (r("  A: {f: ['a*', '*b', '?x']}\n  B: {g: x}\n", "A or B"), docs.clone()),
        (r("  A: {'int(f)': 1}\n", "A or int(f) == 1"), docs.clone()),
    ]
}

fn long_lists(th: bool) -> Stats {
    let lens: Vec<usize> = if th { vec![3, 4, 7, 8, 9, 15, 16, 17, 31, 32, 33, 63, 64, 65, 100, 128, 129, 256, 257] } else { vec![3, 8, 15, 16, 17, 32, 33, 64, 65, 100] };
    let rules = long_list_rules();
    let parts: Vec<Stats> = rules
        .par_iter()
        .map(|(yaml, docs)| {
            let mut st = Stats::default();
            let base = match eng::load(yaml) {
                Ok(r) => r,
                Err(_) => return st,
            };
            let base_y: Y = serde_yaml::from_str(yaml).unwrap();
            let pos: Vec<&MObj> = docs.iter().filter(|d| eng::matches(&base, *d) == Ok(true)).collect();
            let neg: Vec<&MObj> = docs.iter().filter(|d| eng::matches(&base, *d) == Ok(false)).collect();
            if pos.is_empty() || neg.is_empty() {
                return st;
            }
            st.nontrivial += 1;
            for &len in &lens {
                for (np, nn) in [(len, 0), (0, len), (len / 2, len - len / 2), (1, len - 1), (len - 1, 1)] {
                    // which entry fails: none, or one positive / negative at first, middle, last
                    let mut fails: Vec<Option<(bool, usize)>> = vec![None];
                    for k in [0, np / 2, np.saturating_sub(1)] {
                        if np > 0 {
                            fails.push(Some((true, k)));
                        }
                    }
                    for k in [0, nn / 2, nn.saturating_sub(1)] {
                        if nn > 0 {
                            fails.push(Some((false, k)));
                        }
                    }
                    fails.dedup();
                    for fail in fails {
                        // entries: cycle through the matching / non-matching documents, each with a unique marker
                        let mut tp: Vec<(MObj, String)> = vec![];
                        let mut tn: Vec<(MObj, String)> = vec![];
                        for i in 0..np {
                            let src = if fail == Some((true, i)) { neg[i % neg.len()] } else { pos[i % pos.len()] };
                            let mut d = src.clone();
                            let m = format!("markp{}x", i);
                            d.set("zz", s(&m));
                            tp.push((d, m));
                        }
                        for i in 0..nn {
                            let src = if fail == Some((false, i)) { pos[i % pos.len()] } else { neg[i % neg.len()] };
                            let mut d = src.clone();
                            let m = format!("markn{}x", i);
                            d.set("zz", s(&m));
                            tn.push((d, m));
                        }
                        let mut v = base_y.clone();
                        if let Y::Mapping(m) = &mut v {
                            m.insert(Y::String("true_positives".into()), Y::Sequence(tp.iter().map(|(d, _)| Y::Mapping(mdoc::to_yaml_map(d))).collect()));
                            m.insert(Y::String("true_negatives".into()), Y::Sequence(tn.iter().map(|(d, _)| Y::Mapping(mdoc::to_yaml_map(d))).collect()));
                        }
                        let text = serde_yaml::to_string(&v).unwrap_or_default();
                        let rule = match catch(|| Rule::from_value(v)) {
                            Ok(Ok(r)) => r,
                            _ => {
                                st.push_violation(Violation {
                                    signature: "long-example-lists:rule-with-well-formed-examples-does-not-load".into(),
                                    witness: format!("{} positives {} negatives ; rule {}", np, nn, one_line(yaml)),
                                    replay: json!({"kind":"validate","rule_yaml":text}),
                                });
                                continue;
                            }
                        };
                        for sw in [0u8, 0b1111, 0b0010] {
                            let r = if sw == 0 {
                                rule.clone()
                            } else {
                                match eng::optimise_with(&rule, sw, &[]) {
                                    Ok((r, _)) => r,
                                    Err(_) => continue,
                                }
                            };
                            let mut failing: Vec<&String> = vec![];
                            let mut passing: Vec<&String> = vec![];
                            for (d, m) in &tp {
                                if eng::matches(&r, d) == Ok(true) { passing.push(m) } else { failing.push(m) }
                            }
                            for (d, m) in &tn {
                                if eng::matches(&r, d) == Ok(false) { passing.push(m) } else { failing.push(m) }
                            }
                            let got = catch(|| r.validate());
                            st.states += 1;
                            st.transitions += 1 + (np + nn) as u64;
                            st.traces += 1;
                            st.evaluations += 1;
                            let bad: Option<&str> = match &got {
                                Err(_) => Some("validate-panics"),
                                Ok(Ok(true)) => if failing.is_empty() { None } else { Some("ok-although-an-example-fails") },
                                Ok(Ok(false)) => Some("returns-Ok(false)"),
                                Ok(Err(e)) => {
                                    let msg = format!("{}", e);
                                    if failing.is_empty() {
                                        Some("error-although-every-example-passes")
                                    } else if !matches!(e.kind(), ErrorKind::Validation) {
                                        Some("error-is-not-a-validation-error")
                                    } else if tp.iter().chain(tn.iter()).any(|(_, m)| msg.contains(m.as_str())) {
                                        if failing.iter().any(|m| !msg.contains(m.as_str())) {
                                            Some("error-does-not-name-a-failing-example")
                                        } else if passing.iter().any(|m| msg.contains(m.as_str())) {
                                            Some("error-names-a-passing-example")
                                        } else {
                                            None
                                        }
                                    } else {
                                        None
                                    }
                                }
                            };
                            if let Some(kind) = bad {
                                st.push_violation(Violation {
                                    signature: format!("long-example-lists:{}", kind),
                                    witness: format!(
                                        "{} positives, {} negatives, failing entry {:?} ; switches {} ; validate() = {} ; failing by matches(): {:?} ; rule {}",
                                        np, nn, fail, eng::sw_name(sw),
                                        match &got { Ok(Ok(b)) => format!("Ok({})", b), Ok(Err(e)) => format!("Err({})", e).chars().take(160).collect(), Err(m) => format!("PANIC {}", m) },
                                        failing.iter().take(4).collect::<Vec<_>>(), one_line(yaml)
                                    ),
                                    replay: json!({"kind":"validate","rule_yaml":text,"sw_bits":sw}),
                                });
                            }
                        }
                    }
                }
            }
            st
        })
        .collect();
    let mut st = Stats::default();
    for p in parts {
        st.merge(p);
    }
    st.count("long_list_rules", rules.len() as u64);
    st.count("long_list_lengths", lens.len() as u64);
    st
}

pub fn run(tier: Tier) -> i32 {
    let mut rep = Report::new("C13", tier);
    let th = tier.thorough();
    let mut specs: Vec<RuleSpec> = vec![];
    specs.extend(gen::family_single(0).into_iter().step_by(if th { 5 } else { 23 }));
    specs.extend(gen::family_conditions(0).into_iter().step_by(if th { 7 } else { 31 }));
    specs.extend(gen::family_bodies(0).into_iter().step_by(if th { 5 } else { 29 }));
    specs.extend(gen::family_matrix(0).into_iter().step_by(if th { 41 } else { 301 }));
    rep.stats.count("rule_specs", specs.len() as u64);
    let parts: Vec<Stats> = specs.par_iter().map(|sp| check_spec(sp, th)).collect();
    for p in parts {
        rep.stats.merge(p);
    }
    // example lists of 3..100 (thorough 257) entries
    rep.stats.merge(long_lists(th));
    // histories over one rule value
    let hspecs: Vec<&RuleSpec> = specs.iter().step_by(if th { 3 } else { 11 }).collect();
    let depth = if th { 4 } else { 3 };
    let parts: Vec<Stats> = hspecs.par_iter().map(|sp| check_histories(sp, depth)).collect();
    for p in parts {
        rep.stats.merge(p);
    }
    rep.stats.count("history_rule_specs", hspecs.len() as u64);
    rep.extra.insert("history_operations".into(), json!(HIST_OPS));
    rep.extra.insert("history_depth".into(), json!(depth));
    rep.stats.sample(json!({"history":["validate","examples:=positive-fails","validate"],"expected":"as a fresh rule with the failing example: Err(Validation) naming it"}));
    rep.stats.sample(json!({"true_positives":["matching","string"],"true_negatives":["non-matching"],"expected":"Err(Validation) naming the string entry only"}));
    rep.stats.sample(json!({"true_positives":[],"true_negatives":["matching"],"expected":"Err(Validation) naming the matching negative"}));
    rep.rule = "rules: a strided slice of the shared universe (every family); x switch sets (thorough: all 16) x every pair of example lists (true_positives of length 0-2, true_negatives of length 0-1; thorough also every pair over the first nine entry kinds) over {a matching document, a non-matching one, {}, and the malformed entries string / int / null / sequence / bool}; every example carries a unique marker. Oracle: validate() is Ok(true) iff every positive matches and no negative does by matches(); otherwise an error of kind Validation whose text contains the marker of every failing example and of no passing one; a malformed entry is refused at load or reported by validate(), never a panic. Histories: every sequence of up to D operations from {validate, set the example lists to one of five pairs, optimise, clone, replace the detection by its own / by a never-matching one} on one rule value; after each sequence validate() must answer exactly as a freshly loaded rule carrying the same public fields. non-trivial = the rule has both a matching and a non-matching document".into();
    rep.assumptions = vec!["examples are identified in the error text by a unique field value (format of the message is not pinned)".into()];
    rep.finish()
}
