//! Wide-matrix family: or-groups whose rows name more distinct fields than the thresholds the
//! matrix key encoding has (a column is named by `char::from_u32(column)`: one UTF-8 byte up to
//! 127, two up to 2047, three above; the surrogate gap starts at 0xD800 = 55296).
//!
//! The expected verdict of every case is known by construction (the rule language: a sequence is
//! a disjunction of its rows, a row the conjunction of its entries), so the family serves C01
//! (optimised == unoptimised), C02/C06 (both == the constructed truth value), C03 (no panic after
//! load) and C10/C16 (no cell is answered from another column).

use rayon::prelude::*;
use serde_json::json;

use crate::eng::{self, Sw};
use std::collections::HashMap;

use crate::mdoc::{s, MObj};
use crate::report::{catch, Stats, Violation};

/// one wide rule: rendered text + how to build a document and the truth value of `A` on it
pub struct Wide {
    /// rows written in the opposite order (C17: the order of the rows never decides)
    pub rev: bool,
    pub shape: u8,
    pub n: usize,
    pub cond: &'static str,
}

fn fname(j: usize) -> String {
    format!("f{:05}", j)
}

impl Wide {
    /// number of distinct fields the or-group names (= matrix columns when the matrix is built)
    pub fn columns(&self) -> usize {
        self.n + 1
    }
    pub fn yaml(&self) -> String {
        let n = self.n;
        let mut y = String::with_capacity(n * 32);
        y.push_str("detection:\n  A:\n");
        let mut rows: Vec<String> = vec![];
        match self.shape {
            // n rows of two cells sharing one column
            0 => {
                for j in 0..n {
                    rows.push(format!("  - common: c\n    {}: v{}\n", fname(j), j));
                }
            }
            // n one-cell rows, then two rows that share fields (so that a matrix is worth building)
            1 => {
                for j in 0..n {
                    rows.push(format!("  - {}: v{}\n", fname(j), j));
                }
                rows.push(format!("  - zz: hit\n    {}: left\n", fname(0)));
                rows.push(format!("  - zz: other\n    {}: right\n", fname(1)));
            }
            // one row of n cells and one short row sharing its first field: few rows, many columns
            _ => {
                let mut r = String::from("  -");
                for j in 0..n {
                    r.push_str(&format!("{}{}: v{}\n", if j == 0 { " " } else { "    " }, fname(j), j));
                }
                rows.push(r);
                rows.push(format!("  - {}: other\n    zz: b\n", fname(0)));
            }
        }
        if self.rev {
            rows.reverse();
        }
        for r in rows {
            y.push_str(&r);
        }
        y.push_str(&format!("  condition: {}\ntrue_positives: []\ntrue_negatives: []\n", self.cond));
        y
    }
    /// (document, truth value of the or-group A: 1 true, 0 false, -1 missing, description)
    pub fn docs(&self, js: &[usize]) -> Vec<(MObj, i8, usize)> {
        let n = self.n;
        let mut out: Vec<(MObj, i8, usize)> = vec![];
        match self.shape {
            0 => {
                out.push((MObj::new(), -1, 0));
                out.push((MObj::new().with("common", s("c")), -1, 0));
                for &j in js {
                    out.push((MObj::new().with("common", s("c")).with(&fname(j), s(&format!("v{}", j))), 1, 1));
                    out.push((MObj::new().with("common", s("c")).with(&fname(j), s("no")), 0, 0));
                    // the value another row asks for, in this row's field
                    out.push((MObj::new().with("common", s("c")).with(&fname(j), s(&format!("v{}", (j + 1) % n))), 0, 0));
                    // written last so that a lookup by position sees it differently
                    out.push((MObj::new().with(&fname(j), s(&format!("v{}", j))).with("common", s("c")), 1, 1));
                }
            }
            1 => {
                out.push((MObj::new(), -1, 0));
                out.push((MObj::new().with("zz", s("hit")).with(&fname(0), s("left")), 1, 1));
                out.push((MObj::new().with("zz", s("other")).with(&fname(1), s("right")), 1, 1));
                out.push((MObj::new().with("zz", s("hit")).with(&fname(1), s("right")), 0, 0));
                for &j in js {
                    out.push((MObj::new().with(&fname(j), s(&format!("v{}", j))), 1, 1));
                    out.push((MObj::new().with(&fname(j), s("miss")), 0, 0));
                    out.push((MObj::new().with(&fname(j), s(&format!("v{}", (j + 1) % n))), 0, 0));
                    if j + 1 < n {
                        // two true rows (for of(A, 2))
                        out.push((
                            MObj::new().with(&fname(j), s(&format!("v{}", j))).with(&fname(j + 1), s(&format!("v{}", j + 1))),
                            1,
                            2,
                        ));
                    }
                }
            }
            _ => {
                let full = |skip: Option<usize>, wrong: Option<usize>| {
                    let mut d = MObj::new();
                    for j in 0..n {
                        if Some(j) == skip {
                            continue;
                        }
                        if Some(j) == wrong {
                            d.0.push((fname(j), s("no")));
                        } else {
                            d.0.push((fname(j), s(&format!("v{}", j))));
                        }
                    }
                    d
                };
                out.push((MObj::new(), -1, 0));
                out.push((full(None, None), 1, 1));
                out.push((MObj::new().with(&fname(0), s("other")).with("zz", s("b")), 1, 1));
                for &j in js {
                    // one cell wrong: the long row is false (first non-true entry), the short row false or missing
                    out.push((full(None, Some(j)), 0, 0));
                    if j > 0 {
                        // one cell absent: long row missing; short row false on f0 => or is false
                        out.push((full(Some(j), None), 0, 0));
                    }
                }
            }
        }
        out
    }
    /// number of true rows on the document (for of(A, 2)); only shape 1 documents are used with it
    fn expected(&self, a: i8, true_rows: usize) -> bool {
        match self.cond {
            "A" => a == 1,
            "not A" => a == 0,
            "of(A, 2)" => true_rows >= 2,
            _ => unreachable!(),
        }
    }
}

fn cut(x: &str) -> String {
    if x.chars().count() > 240 {
        let t: String = x.chars().take(240).collect();
        format!("{}... ({} chars)", t, x.len())
    } else {
        x.to_string()
    }
}

fn boundary(n: usize) -> Vec<usize> {
    let mut v: Vec<usize> = vec![0, 1, 2, 3, 31, 32, 62, 63, 64, 65, 126, 127, 128, 129, 130, 190, 191, 192, 193, 194, 195, 196, 197, 254, 255, 256, 257, 258, 2045, 2046, 2047, 2048, 2049, 2050, 4095, 4096, 55293, 55294, 55295, 55296, 55297];
    for k in 1..4 {
        if n >= k {
            v.push(n - k);
        }
    }
    v.retain(|&j| j < n);
    v.sort();
    v.dedup();
    v
}

fn bucket(cols: usize) -> &'static str {
    if cols <= 128 {
        "up-to-128-columns"
    } else if cols <= 2048 {
        "129-to-2048-columns"
    } else if cols <= 0xD800 {
        "2049-to-55296-columns"
    } else {
        "more-than-55296-columns"
    }
}

pub fn sizes(th: bool) -> Vec<(u8, usize)> {
    let mut v = vec![];
    let small: &[usize] = if th { &[2, 3, 63, 64, 65, 100, 126, 127, 128, 129, 130, 150, 193, 194, 195, 196, 200, 255, 256, 257, 300] } else { &[64, 127, 128, 129, 195, 256, 257] };
    for shape in 0..3u8 {
        for &n in small {
            v.push((shape, n));
        }
    }
    let big: &[usize] = if th { &[2046, 2047, 2048, 2049, 2100] } else { &[2048] };
    for &n in big {
        if th {
            v.push((0, n));
        }
        v.push((2, n));
    }
    // few rows, many columns: the only shape whose matrix fits in memory at this width
    // (at exactly 0xD800 columns the matrix is still built; the hooked build pays O(n^2) for its vector map there, so that size is thorough only)
    let huge: &[usize] = if th { &[55294, 55295, 55296, 55297] } else { &[55296] };
    for &n in huge {
        v.push((2, n));
    }
    v
}

/// Runs the family. `panics_only`: report only panics (C03). Signatures are prefixed `wide-matrix:`.
pub fn run(th: bool, panics_only: bool) -> Stats {
    let cases: Vec<(u8, usize, &'static str, bool)> = sizes(th)
        .into_iter()
        .flat_map(|(shape, n)| {
            // shape 2 only under `A`: with a cell absent its short row is false or missing depending on
            // the order the cells are evaluated in, which `not` would turn into a verdict (recorded
            // finding matrix@Group||:operands-reordered)
            let conds: Vec<&'static str> = if n > 4096 || shape == 2 {
                vec!["A"]
            } else if shape == 1 {
                vec!["A", "not A", "of(A, 2)"]
            } else {
                vec!["A", "not A"]
            };
            conds.into_iter().flat_map(move |c| {
                // rows in the opposite order as well, from the width at which a column index needs a second byte
                let revs: Vec<bool> = if n >= 127 && n <= 4096 { vec![false, true] } else { vec![false] };
                revs.into_iter().map(move |r| (shape, n, c, r))
            })
        })
        .collect();
    let parts: Vec<Stats> = cases.par_iter().map(|&(shape, n, cond, rev)| one(Wide { rev, shape, n, cond }, th, panics_only)).collect();
    let mut st = Stats::default();
    for p in parts {
        st.merge(p);
    }
    st.count("wide_matrix_rules", cases.len() as u64);
    st
}

fn one(w: Wide, th: bool, panics_only: bool) -> Stats {
    let mut st = Stats::default();
    let yaml = w.yaml();
    let cols = w.columns();
    let short = format!("wide rule shape {}{} with {} fields, condition {}", w.shape, if w.rev { " (rows reversed)" } else { "" }, w.n, w.cond);
    let viol = |sig: String, wit: String, sw: Sw, doc: Option<&MObj>| Violation {
        signature: sig,
        witness: wit,
        replay: json!({"kind":"optimise","rule_yaml": if yaml.len() < 40_000 { yaml.clone() } else { format!("(regenerate: wide shape {} n {} cond {})", w.shape, w.n, w.cond) },
            "wide": {"shape": w.shape, "n": w.n, "cond": w.cond, "rows_reversed": w.rev},
            "sw_bits": sw, "hash_order_choices": [], "document": doc.map(crate::report::mobj_to_json)}),
    };
    let rule = match eng::load(&yaml) {
        Ok(r) => r,
        Err(eng::LoadErr::Err(_)) => {
            st.count("wide_matrix_rules_rejected", 1);
            return st;
        }
        Err(eng::LoadErr::Panic(p)) => {
            st.push_violation(viol(format!("wide-matrix:panic-in-load:{}", bucket(cols)), format!("{} : {}", short, p), 0, None));
            return st;
        }
    };
    st.transitions += 1;
    let js: Vec<usize> = if th && w.n <= 300 && w.shape != 2 {
        (0..w.n).collect()
    } else if w.n > 4096 {
        vec![0, 1, 127, 128, 2047, 2048, w.n - 1]
    } else {
        boundary(w.n)
    };
    let docs = w.docs(&js);
    // switch sets: every set with the matrix pass, plus none and shake alone
    let sws: Vec<Sw> = if th && w.n <= 300 { vec![0, 0b0010, 0b1000, 0b1001, 0b1010, 0b1011, 0b1100, 0b1101, 0b1110, 0b1111] } else if w.n <= 4096 { vec![0, 0b1000, 0b1011, 0b1111] } else { vec![0, 0b1000, 0b1111] };
    let mut distinct = std::collections::BTreeSet::new();
    for sw in sws {
        let opt = if sw == 0 {
            rule.clone()
        } else {
            match catch(|| rule.clone().optimise(eng::opts(sw))) {
                Ok(r) => r,
                Err(p) => {
                    st.push_violation(viol(format!("wide-matrix:panic-in-optimise:{}", bucket(cols)), format!("{} optimise({}) : {}", short, eng::sw_name(sw), p), sw, None));
                    continue;
                }
            }
        };
        st.transitions += 1;
        st.states += 1;
        let is_matrix = format!("{}", opt.detection.expression).contains("matrix") || eng::canon(&opt).contains("matrix");
        if is_matrix {
            st.count(&format!("wide_matrix_trees_with_a_matrix[{}]", bucket(cols)), 1);
        }
        for (d, a, true_rows) in &docs {
            let exp = w.expected(*a, *true_rows);
            st.evaluations += 1;
            st.transitions += 1;
            st.traces += 1;
            let hd: HashMap<String, String> = d.0.iter().map(|(k, v)| (k.clone(), match v { crate::mdoc::MVal::Str(x) => x.clone(), _ => String::new() })).collect();
            match eng::matches(&opt, &hd) {
                Ok(v) => {
                    distinct.insert((sw != 0, v));
                    if v != exp && !panics_only {
                        let kind = if sw == 0 { "unoptimised-verdict-differs-from-the-rule-language" } else { "optimised-verdict-differs" };
                        st.push_violation(viol(
                            format!("wide-matrix:{}:{}", kind, bucket(cols)),
                            format!("{} optimise({}) on {} = {}, expected {}", short, eng::sw_name(sw), cut(&d.show()), v, exp),
                            sw,
                            Some(d),
                        ));
                    }
                }
                Err(p) => {
                    st.push_violation(viol(
                        format!("wide-matrix:panic-in-matches:{}", bucket(cols)),
                        format!("{} optimise({}) on {} : {}", short, eng::sw_name(sw), cut(&d.show()), p),
                        sw,
                        Some(d),
                    ));
                }
            }
        }
    }
    if distinct.len() >= 2 {
        st.nontrivial += 1;
    }
    st
}
