//! C11: the verdict is independent of how the document is represented.

use std::collections::{HashMap, HashSet};

use rayon::prelude::*;
use serde_json::json;
use tau_engine::{AsValue, Document, Object, Value};

use crate::c01::one_line;
use crate::c10::value_to_mval;
use crate::eng;
use crate::gen::{self, RuleSpec};
use crate::mdoc::{self, arr, obj, s, MObj, MVal};
use crate::report::{catch, Report, Stats, Tier, Violation};

struct HandDoc<'a>(&'a MObj);
impl Document for HandDoc<'_> {
    fn find(&self, key: &str) -> Option<Value<'_>> {
        // a user-written Document that resolves paths itself
        crate::refint::lookup(self.0, key).map(|v| v.as_value())
    }
}

/// a hand-written document that hands out *owned* strings (Cow::Owned) everywhere, also from
/// its own Array implementation
enum OVal {
    Plain(MVal),
    Str(String),
    Arr(OArr),
    Obj(OObj),
}
struct OArr(Vec<OVal>);
struct OObj(Vec<(String, OVal)>);
fn oval(v: &MVal) -> OVal {
    match v {
        MVal::Str(s) => OVal::Str(s.clone()),
        MVal::Arr(a) => OVal::Arr(OArr(a.iter().map(oval).collect())),
        MVal::Obj(o) => OVal::Obj(oobj(o)),
        other => OVal::Plain(other.clone()),
    }
}
fn oobj(o: &MObj) -> OObj {
    OObj(o.0.iter().map(|(k, v)| (k.clone(), oval(v))).collect())
}
impl OVal {
    fn value(&self) -> Value<'_> {
        match self {
            OVal::Plain(p) => p.as_value(),
            OVal::Str(s) => Value::String(std::borrow::Cow::Owned(s.clone())),
            OVal::Arr(a) => Value::Array(a),
            OVal::Obj(o) => Value::Object(o),
        }
    }
}
impl tau_engine::Array for OArr {
    fn iter(&self) -> Box<dyn Iterator<Item = Value<'_>> + '_> {
        Box::new(self.0.iter().map(|v| v.value()))
    }
    fn len(&self) -> usize {
        self.0.len()
    }
}
impl Object for OObj {
    fn get(&self, key: &str) -> Option<Value<'_>> {
        self.0.iter().find(|(k, _)| k == key).map(|(_, v)| v.value())
    }
    fn keys(&self) -> Vec<std::borrow::Cow<'_, str>> {
        self.0.iter().map(|(k, _)| std::borrow::Cow::Owned(k.clone())).collect()
    }
    fn len(&self) -> usize {
        self.0.len()
    }
}

fn extreme_docs() -> Vec<MObj> {
    let mut out = vec![];
    let vals: Vec<MVal> = vec![
        MVal::Int(i64::MIN),
        MVal::Int(-1),
        MVal::Int(0),
        MVal::Int(1),
        MVal::Int(i64::MAX),
        MVal::UInt(0),
        MVal::UInt(1),
        MVal::UInt(i64::MAX as u64),
        MVal::UInt(i64::MAX as u64 + 1),
        MVal::UInt(u64::MAX),
        MVal::Float(0.5),
        MVal::Float(-0.0),
        MVal::Float(1.0),
        MVal::Float(1.5),
        MVal::Float(1e300),
        MVal::Float(16777217.0),
        MVal::Float(f64::NAN),
        MVal::Float(f64::INFINITY),
        MVal::Bool(true),
        MVal::Bool(false),
        MVal::Null,
        s("1"),
        s(""),
        s("a"),
        arr(vec![MVal::Int(1), MVal::UInt(u64::MAX), s("a"), MVal::Null, MVal::Float(1.5)]),
        arr(vec![]),
        obj(vec![("x", MVal::UInt(u64::MAX)), ("y", arr(vec![obj(vec![("x", s("a"))])]))]),
    ];
    for v in &vals {
        out.push(MObj::new().with("f", v.clone()));
        out.push(MObj::new().with("f", v.clone()).with("g", MVal::Int(1)));
        out.push(MObj::new().with("n", obj(vec![("x", v.clone())])).with("l", arr(vec![v.clone()])));
    }
    out
}

fn numeric_specs() -> Vec<RuleSpec> {
    use gen::{e, flt, int, list, st, Body};
    let mut out = vec![];
    let consts: Vec<gen::Val> = vec![
        int(0),
        int(1),
        int(-1),
        int(i64::MAX),
        int(i64::MIN),
        flt(1.5),
        flt(0.5),
        flt(16777217.0),
        st(">=1"),
        st("<0"),
        st(">9223372036854775806"),
        st("<=-9223372036854775808"),
        st(">=1.5"),
        st("=0.5"),
        st("1"),
        st("1*"),
        st("*5"),
        st("18446744073709551615"),
        st("true"),
        gen::boolean(true),
        gen::null(),
    ];
    for k in ["f", "int(f)", "flt(f)", "str(f)", "not(f)", "n.x", "l[0]"] {
        for c in &consts {
            out.push(RuleSpec::one(Body::Map(vec![e(k, c.clone())])));
        }
    }
    out.push(RuleSpec::one(Body::Map(vec![e("f", list(vec![int(1), st(">=2"), st("a*")]))])));
    for cond in ["int(f) == 1", "int(f) >= int(g)", "flt(f) < 1.5", "str(f) == str(g)", "flt(f) >= flt(g)"] {
        out.push(RuleSpec {
            idents: vec![("A".into(), Body::Map(vec![e("zz", st("x"))]))],
            cond: cond.into(),
        });
    }
    out
}

fn check_spec(spec: &RuleSpec, extra: &[MObj], level: u8) -> Stats {
    let mut st = Stats::default();
    let yaml = spec.yaml();
    let rule = match eng::load(&yaml) {
        Ok(r) => r,
        Err(_) => return st,
    };
    let mut docs = gen::docs_for(spec, level, 80);
    docs.extend(extra.iter().cloned());
    let mut t = false;
    let mut f = false;
    // the rule as loaded and in optimised forms (the optimised forms evaluate cells through
    // other solver arms); each form is compared with itself on the model document
    let mut forms: Vec<(u8, tau_engine::Rule)> = vec![(0, rule.clone())];
    for sw in [0b1111u8, 0b1000, 0b1010, 0b0110] {
        if let Ok((o, _)) = eng::optimise_with(&rule, sw, &[]) {
            if eng::canon(&o) != eng::canon(&rule) && forms.iter().all(|(_, x)| eng::canon(x) != eng::canon(&o)) {
                forms.push((sw, o));
            }
        }
    }
    for (sw, rule) in &forms {
    let sw = *sw;
    for (di, d) in docs.iter().enumerate() {
        let base = eng::matches(&rule, d);
        if base == Ok(true) {
            t = true
        } else {
            f = true
        }
        let yaml_map = mdoc::to_yaml_map(d);
        let json_map = mdoc::to_json_map(d);
        let mut results: Vec<(&'static str, Result<bool, String>)> = vec![
            ("serde_yaml::Mapping", eng::matches(&rule, &yaml_map)),
            ("hand-written Document", eng::matches(&rule, &HandDoc(d))),
            ("&dyn Object", {
                let o: &dyn Object = d;
                eng::matches(&rule, &o)
            }),
            ("hand-written Object with owned strings", eng::matches(&rule, &oobj(d))),
        ];
        for variant in 0..3 {
            let m = mdoc::to_std_map(d, variant + di);
            results.push(("HashMap<String, std types>", eng::matches(&rule, &m)));
        }
        if let Some(j) = json_map {
            let jv = serde_json::Value::Object(j.clone());
            results.push(("serde_json::Value", eng::matches(&rule, &jv)));
            results.push(("serde_json::Map", eng::matches(&rule, &j)));
        } else {
            st.count("documents_not_representable_in_json", 1);
        }
        for (rep, got) in results {
            st.states += 1;
            st.transitions += 1;
            st.traces += 1;
            st.evaluations += 1;
            if got != base {
                st.push_violation(Violation {
                    signature: format!("verdict-differs:{}{}", rep, if sw == 0 { "" } else { ":optimised" }),
                    witness: format!("{} gives {:?}, the model document gives {:?} (optimise({})) ; rule {} doc {}", rep, got, base, eng::sw_name(sw), one_line(&yaml), d.show()),
                    replay: json!({"kind":"optimise","rule_yaml":yaml,"sw_bits":sw,"hash_order_choices":[],"document":crate::report::mobj_to_json(d),"representation":rep}),
                });
            }
        }
    }
    }
    if t && f {
        st.nontrivial += 1;
    }
    st
}

macro_rules! adapter_int {
    ($st:expr, $ty:ty, $signed:expr) => {{
        for v in [<$ty>::MIN, <$ty>::MAX, 0 as $ty, 1 as $ty, (<$ty>::MAX / 2) as $ty] {
            let got = v.as_value();
            $st.states += 1;
            $st.transitions += 1;
            $st.traces += 1;
            $st.evaluations += 1;
            let ok = if $signed {
                matches!(got, Value::Int(x) if x as i128 == v as i128)
            } else {
                matches!(got, Value::UInt(x) if x as i128 == v as i128)
            };
            if !ok {
                $st.push_violation(Violation {
                    signature: format!("adapter:{}", stringify!($ty)),
                    witness: format!("{}::as_value({}) = {}", stringify!($ty), v, value_to_mval(&got, 0).show()),
                    replay: json!({"kind":"adapter","type":stringify!($ty),"value":v.to_string()}),
                });
            }
        }
    }};
}

fn adapters() -> Stats {
    let mut st = Stats::default();
    adapter_int!(st, i8, true);
    adapter_int!(st, i16, true);
    adapter_int!(st, i32, true);
    adapter_int!(st, i64, true);
    adapter_int!(st, isize, true);
    adapter_int!(st, u8, false);
    adapter_int!(st, u16, false);
    adapter_int!(st, u32, false);
    adapter_int!(st, u64, false);
    adapter_int!(st, usize, false);
    let mut bad = |name: &str, ok: bool, detail: String, st: &mut Stats| {
        st.states += 1;
        st.transitions += 1;
        st.traces += 1;
        st.evaluations += 1;
        if !ok {
            st.push_violation(Violation {
                signature: format!("adapter:{}", name),
                witness: detail.clone(),
                replay: json!({"kind":"adapter","type":name,"value":detail}),
            });
        }
    };
    for v in [0.0f32, -0.0, 1.5, 16777216.0, f32::MAX, f32::MIN_POSITIVE, f32::INFINITY] {
        let got = v.as_value();
        bad("f32", matches!(got, Value::Float(x) if x == v as f64), format!("f32 {} -> {}", v, value_to_mval(&got, 0).show()), &mut st);
    }
    bad("f32", matches!(f32::NAN.as_value(), Value::Float(x) if x.is_nan()), "f32 NaN".into(), &mut st);
    for v in [0.0f64, -0.0, 1.5, 1e300, f64::MAX, f64::MIN_POSITIVE, f64::NEG_INFINITY, 9007199254740993.0] {
        let got = v.as_value();
        bad("f64", matches!(got, Value::Float(x) if x.to_bits() == v.to_bits()), format!("f64 {} -> {}", v, value_to_mval(&got, 0).show()), &mut st);
    }
    bad("bool", matches!(true.as_value(), Value::Bool(true)) && matches!(false.as_value(), Value::Bool(false)), "bool".into(), &mut st);
    bad("String", matches!("héllo".to_string().as_value(), Value::String(x) if x == "héllo"), "String".into(), &mut st);
    bad("str", matches!("".as_value(), Value::String(x) if x.is_empty()), "str".into(), &mut st);
    bad("()", matches!(().as_value(), Value::Null), "()".into(), &mut st);
    bad("Option::None", matches!(None::<i64>.as_value(), Value::Null), "None -> Null".into(), &mut st);
    bad("Option::Some", matches!(Some(-5i32).as_value(), Value::Int(-5)), "Some(-5i32)".into(), &mut st);
    bad("Option::Some(u64)", matches!(Some(u64::MAX).as_value(), Value::UInt(u64::MAX)), "Some(u64::MAX)".into(), &mut st);
    // Vec: order and length
    let v: Vec<i64> = vec![3, 1, 2];
    let got = value_to_mval(&v.as_value(), 0);
    bad("Vec", got == arr(vec![MVal::Int(3), MVal::Int(1), MVal::Int(2)]) && tau_engine::Array::len(&v) == 3, format!("Vec [3,1,2] -> {}", got.show()), &mut st);
    let v: Vec<Option<String>> = vec![None, Some("a".into())];
    let got = value_to_mval(&v.as_value(), 0);
    bad("Vec<Option>", got == arr(vec![MVal::Null, s("a")]), format!("-> {}", got.show()), &mut st);
    // HashSet: same elements
    let hs: HashSet<u16> = [7u16, 9].into_iter().collect();
    let got = value_to_mval(&hs.as_value(), 0);
    let mut elems = match &got {
        MVal::Arr(a) => a.iter().map(|x| x.show()).collect::<Vec<_>>(),
        _ => vec![],
    };
    elems.sort();
    bad("HashSet", elems == vec!["7u".to_string(), "9u".to_string()] && tau_engine::Array::len(&hs) == 2, format!("HashSet {{7,9}} -> {}", got.show()), &mut st);
    // HashMap: get / keys / len / nested find
    let mut inner: HashMap<String, u8> = HashMap::new();
    inner.insert("x".into(), 255);
    let mut hm: HashMap<String, HashMap<String, u8>> = HashMap::new();
    hm.insert("n".into(), inner);
    let got = Object::find(&hm, "n.x").map(|v| value_to_mval(&v, 0));
    bad("HashMap", got == Some(MVal::UInt(255)) && Object::len(&hm) == 1 && Object::keys(&hm).len() == 1 && Object::find(&hm, "n.y").is_none(), format!("n.x -> {:?}", got.map(|v| v.show())), &mut st);
    // a rule over a HashSet field: order free predicate
    let mut d: HashMap<String, HashSet<String>> = HashMap::new();
    d.insert("f".into(), ["ab".to_string(), "x".to_string()].into_iter().collect());
    if let Ok(r) = eng::load("detection:\n  A: {f: ['a*', 'zz']}\n  condition: A\ntrue_positives: []\ntrue_negatives: []\n") {
        bad("HashSet-in-rule", eng::matches(&r, &d) == Ok(true), "f: ['a*','zz'] over HashSet{ab,x}".into(), &mut st);
    }
    if let Ok(r) = eng::load("detection:\n  A: {f: 'b*'}\n  condition: A\ntrue_positives: []\ntrue_negatives: []\n") {
        bad("HashSet-in-rule", eng::matches(&r, &d) == Ok(false), "f: 'b*' over HashSet{ab,x}".into(), &mut st);
    }
    // yaml / json number kinds
    let y: serde_yaml::Value = serde_yaml::from_str("[18446744073709551615, -1, 1, 1.5, 9223372036854775808]").unwrap();
    let got = value_to_mval(&y.as_value(), 0);
    bad("serde_yaml numbers", got == arr(vec![MVal::UInt(u64::MAX), MVal::Int(-1), MVal::UInt(1), MVal::Float(1.5), MVal::UInt(1 << 63)]), format!("-> {}", got.show()), &mut st);
    let j: serde_json::Value = serde_json::from_str("[18446744073709551615, -1, 1, 1.5, 9223372036854775808]").unwrap();
    let got = value_to_mval(&j.as_value(), 0);
    bad("serde_json numbers", got == arr(vec![MVal::UInt(u64::MAX), MVal::Int(-1), MVal::UInt(1), MVal::Float(1.5), MVal::UInt(1 << 63)]), format!("-> {}", got.show()), &mut st);
    let _ = catch(|| ());
    st
}

pub fn run(tier: Tier) -> i32 {
    let mut rep = Report::new("C11", tier);
    let th = tier.thorough();
    rep.stats.merge(adapters());
    let extra = extreme_docs();
    let mut specs: Vec<RuleSpec> = numeric_specs();
    {
        // quantifiers over an identifier whose alternatives share an integer-equality field
        // (these stay matrices inside `identifiers` when coalesce is off)
        use crate::gen::{e, int, st as gs, Body};
        let rows = Body::Seq(vec![
            vec![e("f", int(1)), e("g", int(3))],
            vec![e("f", int(1)), e("h", int(5))],
            vec![e("f", int(2))],
        ]);
        let rows2 = Body::Seq(vec![vec![e("f", int(0)), e("g", gs("x"))], vec![e("f", int(-1))], vec![e("g", gs("a*")), e("f", int(1))]]);
        for body in [rows, rows2] {
            for cond in ["all(A)", "of(A, 1)", "of(A, 2)", "not of(A, 1)", "A"] {
                specs.push(RuleSpec { idents: vec![("A".into(), body.clone())], cond: cond.into() });
            }
        }
    }
    specs.extend(gen::universe(0).into_iter().step_by(if th { 1 } else { 5 }));
    if th {
        specs.extend(gen::family_single(1).into_iter().step_by(2));
    }
    rep.stats.count("rule_specs", specs.len() as u64);
    rep.stats.count("extreme_documents", extra.len() as u64);
    let parts: Vec<Stats> = specs.par_iter().map(|sp| check_spec(sp, &extra, 1)).collect();
    for p in parts {
        rep.stats.merge(p);
    }
    rep.stats.sample(json!({"document":"{f: 18446744073709551615u}","representations":["model (hand-written Object)","serde_yaml::Mapping","serde_json::Value","serde_json::Map","HashMap<String, u64/usize>","hand-written Document","&dyn Object"]}));
    rep.stats.sample(json!({"adapter":"i8","values":[-128,127,0,1,63],"oracle":"Value::Int with the same value"}));
    rep.rule = "model documents (the per-field product of the shared alphabets plus 81 documents over the 64-bit / double extremes, nested and inside arrays) rendered into every supported representation: serde_yaml::Mapping, serde_json::Value and Map (NaN/inf skipped), HashMap<String,_> built only from std types through the shipped adapters (integer width rotated so that every adapter is used), a hand-written Document with its own path resolution, and &dyn Object; x the numeric rule family (every key modifier x boundary constants, cast comparisons) and the shared universe. every rule as loaded and in up to four optimised forms. Oracle: every representation gives the verdict of the model document (same form of the rule); each std adapter yields the value kind with the same numeric value and signedness (Value inspected directly). non-trivial = rule is discriminating".into();
    rep.assumptions = vec!["f32 values are compared after exact widening to f64".into()];
    // the same exploration on the crate built with its `sync` feature (own copies of find / adapters)
    let vrc = crate::report::run_variant(&mut rep, "sync", "/verif/harness/target-sy/release/tv");
    if vrc >= 2 {
        return 2;
    }
    let rc = rep.finish();
    rc.max(vrc)
}
