//! C14: rule serialisation round-trips.

use rayon::prelude::*;
use serde_json::json;
use serde_yaml::Value as Y;
use tau_engine::Rule;

use crate::c01::one_line;
use crate::eng;
use crate::gen::{self, boolean, e, flt, int, list, map, null, st, Body, RuleSpec, Val};
use crate::mdoc::{s, MObj, MVal};
use crate::report::{catch, Report, Stats, Tier, Violation};

fn tricky_values() -> Vec<Val> {
    let mut v: Vec<Val> = [
        "*x", "x*", "*x*", "?re", "i?Re", "\"a\"", "'*lit'", "'a'", "1", "1.0", "true", "null", "~", "*", "",
        " a", "a ", "a: b", "- a", "#c", "0x10", "1e3", ".5", "-", "a\nb", "tab\there", "é日本", "yes", "no",
        "on", "off", "=1", ">=2", "<1.5", "i", "ia", "{a: b}", "[a]", "!tag", "&anchor", "*alias", "%", "@", "`",
        "'", "\"", "a'b", "a\"b", "\\", "0", "-0", "+1", "1_000", "0o7", ".inf", ".nan", "null ", "Null", "TRUE",
        "10\u{a0}000", "\u{a0}", "a\u{a0}*", "\u{feff}a", "a\u{feff}", "a\u{2028}b", "a\u{85}b", "a\u{0}b", "\u{7f}", "a\rb", "\u{200b}", "a\u{1b}[0m", "<<",
    ]
    .iter()
    .map(|x| st(x))
    .collect();
    v.extend(vec![
        int(1),
        int(-1),
        int(i64::MAX),
        flt(1.0),
        flt(1.5),
        flt(1e300),
        flt(f64::NAN),
        flt(f64::INFINITY),
        boolean(true),
        boolean(false),
        null(),
    ]);
    v
}

fn val_to_doc_values(v: &Val) -> Vec<MVal> {
    match v {
        Val::Sc(gen::Sc::Str(x)) => vec![s(x), s(x.trim_matches(|c| c == '*' || c == '?' || c == '\'' || c == '"'))],
        Val::Sc(gen::Sc::Int(i)) => vec![MVal::Int(*i), s(&i.to_string())],
        Val::Sc(gen::Sc::Float(f)) => vec![MVal::Float(*f), s(&f.to_string())],
        Val::Sc(gen::Sc::Bool(b)) => vec![MVal::Bool(*b), s(&b.to_string())],
        Val::Sc(gen::Sc::Null) => vec![MVal::Null, s("null"), s("~")],
        _ => vec![],
    }
}

fn specs_for(v: &Val) -> Vec<RuleSpec> {
    let mut out = vec![
        RuleSpec::one(Body::Map(vec![e("f", v.clone())])),
        RuleSpec::one(Body::Map(vec![e("f", list(vec![v.clone(), st("x")]))])),
        RuleSpec::one(Body::Map(vec![e("f", list(vec![st("a*"), v.clone(), v.clone()]))])),
        RuleSpec::one(Body::Map(vec![e("str(f)", v.clone())])),
        RuleSpec::one(Body::Map(vec![e("not(f)", v.clone())])),
        RuleSpec::one(Body::Map(vec![e("n", map(vec![e("x", v.clone())]))])),
        RuleSpec::one(Body::Seq(vec![vec![e("f", v.clone())], vec![e("g", v.clone())]])),
        RuleSpec::one(Body::Map(vec![e("all(f)", list(vec![v.clone(), v.clone()]))])),
    ];
    // the value as a key as well (keys are re-tokenised on load)
    if let Val::Sc(gen::Sc::Str(x)) = v {
        out.push(RuleSpec::one(Body::Map(vec![e(x, st("x"))])));
    }
    out
}

/// what a user can observe of a rule, as plain YAML
fn observable(r: &Rule) -> Result<Y, String> {
    serde_yaml::to_value(r).map_err(|e| e.to_string())
}

fn strip_flag(mut v: Y) -> Y {
    if let Y::Mapping(m) = &mut v {
        m.remove(Y::String("optimised".into()));
    }
    v
}

fn check(spec: &RuleSpec, extra_docs: &[MObj], examples: &(Y, Y), th: bool) -> Stats {
    let mut st = Stats::default();
    let yaml0 = spec.yaml();
    // put the examples in
    let mut v0: Y = match serde_yaml::from_str(&yaml0) {
        Ok(v) => v,
        Err(_) => return st,
    };
    if let Y::Mapping(m) = &mut v0 {
        m.insert(Y::String("true_positives".into()), examples.0.clone());
        m.insert(Y::String("true_negatives".into()), examples.1.clone());
    }
    let text0 = serde_yaml::to_string(&v0).unwrap_or_default();
    let rule = match catch(|| Rule::from_str(&text0)) {
        Ok(Ok(r)) => r,
        _ => {
            st.count("rules_rejected_by_loader", 1);
            return st;
        }
    };
    st.count("rules_loaded", 1);
    let mut docs = gen::docs_for(spec, 1, 60);
    docs.extend(extra_docs.iter().cloned());
    let base_verdicts: Vec<Result<bool, String>> = docs.iter().map(|d| eng::matches(&rule, d)).collect();
    let base_obs = observable(&rule);
    let base_canon = eng::canon(&rule);
    // from_str and from_value agree
    let via_value = catch(|| serde_yaml::from_str::<Y>(&text0).ok().map(Rule::from_value));
    st.transitions += 2;
    match via_value {
        Ok(Some(Ok(r2))) => {
            if eng::canon(&r2) != base_canon || observable(&r2).ok() != base_obs.clone().ok() {
                st.push_violation(Violation {
                    signature: "from_value-differs-from-from_str".into(),
                    witness: format!("{} vs {} ; rule {}", base_canon, eng::canon(&r2), one_line(&text0)),
                    replay: json!({"kind":"roundtrip","rule_yaml":text0}),
                });
            }
        }
        _ => st.push_violation(Violation {
            signature: "from_value-rejects-what-from_str-accepts".into(),
            witness: format!("rule {}", one_line(&text0)),
            replay: json!({"kind":"roundtrip","rule_yaml":text0}),
        }),
    }
    // the same rule with its identifiers written in the opposite order is the same YAML value
    // (a mapping) and must load to the same rule
    if let Y::Mapping(top) = &v0 {
        if let Some(Y::Mapping(det)) = top.get(Y::String("detection".into())) {
            if det.len() > 2 {
                let mut rev = serde_yaml::Mapping::new();
                for (k, v) in det.iter().collect::<Vec<_>>().into_iter().rev() {
                    rev.insert(k.clone(), v.clone());
                }
                let mut top2 = top.clone();
                top2.insert(Y::String("detection".into()), Y::Mapping(rev));
                let text_rev = serde_yaml::to_string(&Y::Mapping(top2)).unwrap_or_default();
                st.transitions += 1;
                match catch(|| Rule::from_str(&text_rev)) {
                    Ok(Ok(r2)) => {
                        let differs = eng::canon(&r2) != base_canon
                            || docs.iter().enumerate().any(|(i, d)| eng::matches(&r2, d) != base_verdicts[i]);
                        if differs {
                            st.push_violation(Violation {
                                signature: "order-of-identifiers-in-the-text-changes-the-rule".into(),
                                witness: format!("{} vs {} ; rule {}", base_canon, eng::canon(&r2), one_line(&text0)),
                                replay: json!({"kind":"roundtrip","rule_yaml":text0,"permuted_rule_yaml":text_rev}),
                            });
                        }
                    }
                    _ => st.push_violation(Violation {
                        signature: "order-of-identifiers-in-the-text-decides-whether-the-rule-loads".into(),
                        witness: format!("rule {}", one_line(&text_rev)),
                        replay: json!({"kind":"roundtrip","rule_yaml":text_rev}),
                    }),
                }
            }
        }
    }
    // Rule::load(path) is from_str over the file's contents
    {
        use std::sync::atomic::{AtomicU64, Ordering};
        static N: AtomicU64 = AtomicU64::new(0);
        let n = N.fetch_add(1, Ordering::Relaxed);
        if n % 16 == 0 {
            let path = std::env::temp_dir().join(format!("tv-c14-{}-{}.yml", std::process::id(), n));
            if std::fs::write(&path, &text0).is_ok() {
                let loaded = catch(|| Rule::load(&path));
                let _ = std::fs::remove_file(&path);
                st.transitions += 1;
                let same = matches!(&loaded, Ok(Ok(r2)) if eng::canon(r2) == base_canon && observable(r2).ok() == base_obs.clone().ok());
                if !same {
                    st.push_violation(Violation {
                        signature: "Rule::load-differs-from-from_str".into(),
                        witness: format!("rule {}", one_line(&text0)),
                        replay: json!({"kind":"roundtrip","rule_yaml":text0}),
                    });
                }
            }
        }
    }
    let sws: Vec<u8> = if th { (0..16).collect() } else { vec![0, 0b1111, 0b0110, 0b1001] };
    let mut disc = (false, false);
    for sw in sws {
        let r = if sw == 0 {
            rule.clone()
        } else {
            match eng::optimise_with(&rule, sw, &[]) {
                Ok((r, _)) => r,
                Err(_) => continue,
            }
        };
        st.states += 1;
        st.evaluations += 1;
        st.traces += 1;
        let text = match catch(|| serde_yaml::to_string(&r)) {
            Ok(Ok(t)) => t,
            Ok(Err(e)) => {
                st.push_violation(Violation {
                    signature: "serialisation-fails".into(),
                    witness: format!("{} ; rule {}", e, one_line(&text0)),
                    replay: json!({"kind":"roundtrip","rule_yaml":text0,"sw_bits":sw}),
                });
                continue;
            }
            Err(p) => {
                st.push_violation(Violation {
                    signature: "serialisation-panics".into(),
                    witness: format!("{} ; rule {}", p, one_line(&text0)),
                    replay: json!({"kind":"roundtrip","rule_yaml":text0,"sw_bits":sw}),
                });
                continue;
            }
        };
        st.transitions += 2 + docs.len() as u64;
        let back = match catch(|| Rule::from_str(&text)) {
            Ok(Ok(b)) => b,
            Ok(Err(e)) => {
                st.push_violation(Violation {
                    signature: "serialised-rule-does-not-load".into(),
                    witness: format!("{} ; serialised: {} ; original {}", e, text.replace('\n', "\\n"), one_line(&text0)),
                    replay: json!({"kind":"roundtrip","rule_yaml":text0,"sw_bits":sw}),
                });
                continue;
            }
            Err(p) => {
                st.push_violation(Violation {
                    signature: "loading-the-serialised-rule-panics".into(),
                    witness: format!("{} ; rule {}", p, one_line(&text0)),
                    replay: json!({"kind":"roundtrip","rule_yaml":text0,"sw_bits":sw}),
                });
                continue;
            }
        };
        // condition text, raw identifiers, examples
        let a = observable(&r).map(strip_flag);
        let b = observable(&back).map(strip_flag);
        if a != b || base_obs.clone().map(strip_flag) != b {
            st.push_violation(Violation {
                signature: "condition-identifiers-or-examples-change".into(),
                witness: format!(
                    "before {:?} after {:?} ; rule {}",
                    a.as_ref().ok().and_then(|v| serde_yaml::to_string(v).ok()).map(|t| t.replace('\n', "\\n")),
                    b.as_ref().ok().and_then(|v| serde_yaml::to_string(v).ok()).map(|t| t.replace('\n', "\\n")),
                    one_line(&text0)
                ),
                replay: json!({"kind":"roundtrip","rule_yaml":text0,"sw_bits":sw}),
            });
        }
        // parsed identifiers (what the text means) equal those of the rule as first loaded
        if eng::canon(&back) != base_canon {
            st.push_violation(Violation {
                signature: "parsed-rule-changes".into(),
                witness: format!("{} became {} ; rule {}", base_canon, eng::canon(&back), one_line(&text0)),
                replay: json!({"kind":"roundtrip","rule_yaml":text0,"sw_bits":sw}),
            });
        }
        // optimising the reloaded rule: a rule serialised before optimisation optimises to what the
        // original optimises to; a rule serialised after optimisation carries the flag and is
        // left alone
        if let (Ok((ob, _)), Ok((oo, _))) = (eng::optimise_with(&back, eng::SW_DEFAULT, &[]), eng::optimise_with(&r, eng::SW_DEFAULT, &[])) {
            st.transitions += 2;
            let expect = if sw == 0 { eng::canon(&oo) } else { eng::canon(&back) };
            if eng::canon(&ob) != expect {
                st.push_violation(Violation {
                    signature: format!("optimise-after-reload-differs:{}", if sw == 0 { "from-optimising-the-original" } else { "an-already-optimised-rule-is-optimised-again" }),
                    witness: format!("{} instead of {} ; rule {}", eng::canon(&ob), expect, one_line(&text0)),
                    replay: json!({"kind":"roundtrip","rule_yaml":text0,"sw_bits":sw}),
                });
            }
        }
        // verdicts
        for (i, d) in docs.iter().enumerate() {
            let got = eng::matches(&back, d);
            if got == Ok(true) {
                disc.0 = true
            } else {
                disc.1 = true
            }
            if got != base_verdicts[i] {
                st.push_violation(Violation {
                    signature: "verdict-changes".into(),
                    witness: format!("{:?} became {:?} on {} ; rule {}", base_verdicts[i], got, d.show(), one_line(&text0)),
                    replay: json!({"kind":"roundtrip","rule_yaml":text0,"sw_bits":sw,"document":crate::report::mobj_to_json(d)}),
                });
            }
        }
    }
    if disc.0 && disc.1 {
        st.nontrivial += 1;
    }
    st
}

pub fn run(tier: Tier) -> i32 {
    let mut rep = Report::new("C14", tier);
    let th = tier.thorough();
    let tv = tricky_values();
    let mut jobs: Vec<(RuleSpec, Vec<MObj>)> = vec![];
    for v in &tv {
        let dv: Vec<MObj> = val_to_doc_values(v)
            .into_iter()
            .flat_map(|x| {
                vec![
                    MObj::new().with("f", x.clone()),
                    MObj::new().with("g", x.clone()),
                    MObj::new().with("n", crate::mdoc::obj(vec![("x", x.clone())])),
                ]
            })
            .collect();
        for sp in specs_for(v) {
            jobs.push((sp, dv.clone()));
        }
    }
    // extra identifiers with names YAML or the tokeniser treat specially (never referenced by the
    // condition), and the YAML merge key
    for name in ["a", "<<", "a b", "é", "*x", "&a", "A.B", "and", "not", "all(A)", "1a", "~x", "=", "?", "-", "condition2", "true_positives"] {
        jobs.push((
            RuleSpec {
                idents: vec![
                    ("A".into(), Body::Map(vec![e("f", st("a*"))])),
                    (name.into(), Body::Map(vec![e("g", st("x"))])),
                ],
                cond: "A".into(),
            },
            vec![MObj::new().with("f", s("ab")).with("g", s("x")), MObj::new().with("g", s("x"))],
        ));
        // the special name as a key inside an identifier and inside a nested block
        jobs.push((
            RuleSpec::one(Body::Seq(vec![vec![e("f", st("a*"))], vec![e(name, st("x"))]])),
            vec![MObj::new().with(name, s("x")), MObj::new().with("f", s("ab"))],
        ));
        jobs.push((
            RuleSpec::one(Body::Map(vec![e("n", map(vec![e(name, map(vec![e("x", st("a"))]))]))])),
            vec![MObj::new().with("n", crate::mdoc::obj(vec![(name, crate::mdoc::obj(vec![("x", s("a"))]))]))],
        ));
    }
    // identifiers whose bodies are equal as YAML values but written in another key order (a block
    // is an and-group in key order, so the two are different expressions)
    for cond in ["A or not B", "not A or B", "not A and not B", "of(A, 0) or B"] {
        for (a, b) in [
            (vec![e("f", st("a")), e("g", st("x"))], vec![e("g", st("x")), e("f", st("a"))]),
            (vec![e("f", st("a*")), e("n", map(vec![e("x", st("a"))]))], vec![e("n", map(vec![e("x", st("a"))])), e("f", st("a*"))]),
            (vec![e("f", int(1)), e("g", st("?x"))], vec![e("g", st("?x")), e("f", int(1))]),
        ] {
            jobs.push((
                RuleSpec { idents: vec![("A".into(), Body::Map(a)), ("B".into(), Body::Map(b))], cond: cond.into() },
                vec![
                    MObj::new().with("g", s("z")),
                    MObj::new().with("f", s("z")),
                    MObj::new().with("f", s("a")).with("g", s("x")),
                    MObj::new().with("n", crate::mdoc::obj(vec![("x", s("b"))])),
                    MObj::new().with("f", s("ab")),
                ],
            ));
        }
    }
    let uni: Vec<RuleSpec> = gen::universe(0).into_iter().step_by(if th { 2 } else { 11 }).collect();
    for sp in uni {
        jobs.push((sp, vec![]));
    }
    rep.stats.count("rule_specs", jobs.len() as u64);
    // example shapes
    let examples: Vec<(Y, Y)> = [
        ("[]", "[]"),
        ("[{f: x}]", "[{f: '1', g: 1, h: 1.0, i: true, j: null, k: '~', l: 'a: b'}]"),
        ("[{n: {x: [a, {y: '*'}]}}, {}]", "[{f: \"multi\\nline\"}, {'é': '日本'}]"),
        ("[foo, 1, null]", "[[a], true]"),
        ("[{'<<': {f: x}, g: y}, {f: ab}]", "[{'<<': [{a: 1}, {b: 2}]}, {'<<': 1}]"),
    ]
    .iter()
    .map(|(a, b)| (serde_yaml::from_str::<Y>(a).unwrap(), serde_yaml::from_str::<Y>(b).unwrap()))
    .collect();
    let parts: Vec<Stats> = jobs
        .par_iter()
        .enumerate()
        .map(|(i, (sp, dv))| {
            let mut st = Stats::default();
            let exs: Vec<&(Y, Y)> = if th { examples.iter().collect() } else { vec![&examples[i % examples.len()]] };
            for ex in exs {
                st.merge(check(sp, dv, ex, th));
            }
            st
        })
        .collect();
    for p in parts {
        rep.stats.merge(p);
    }
    rep.stats.sample(json!({"value":"'1' (a string that looks like a number)","positions":["f: v","f: [v, x]","str(f): v","n: {x: v}","[{f: v}, {g: v}]","key"]}));
    rep.stats.sample(json!({"value":"a\\nb","oracle":"reload of serde_yaml::to_string(rule) has the same condition, raw identifiers, examples, parsed tree and verdicts"}));
    rep.rule = "rules: a 70-value quoting-sensitive alphabet (pattern-looking strings, numeric / boolean / null look-alikes, YAML indicators, multi-line, non-ASCII, real numbers incl. NaN/inf, booleans, null) in 9 positions each (scalar, inside lists, under str()/not()/all(), nested, in sequences, as a key) plus a strided slice of the shared universe; x example lists of four shapes; x {as loaded, optimised (thorough: all 16 switch sets)} before serialising. Oracle: serde_yaml::to_string(rule) loads again; condition text, raw identifiers and examples (the serialised view) are equal; the re-parsed tree equals the tree of the rule as first loaded; verdicts on the document set are equal; from_str and from_value agree. non-trivial = reloaded rule is discriminating".into();
    rep.assumptions = vec!["serde_yaml's own emitter/parser pair is trusted to round-trip plain YAML values".into()];
    rep.finish()
}
