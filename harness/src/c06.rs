//! C06: three-valued connectives obey their truth tables - finite space enumerated completely.

use std::collections::HashMap;

use serde_json::json;
use tau_engine::core::parser::{BoolSym, Expression, Match, Search};

use crate::eng;
use crate::mdoc::{s, MObj, MVal};
use crate::report::{Report, Stats, Tier, Violation};

const T: i8 = 1;
const F: i8 = 0;
const M: i8 = -1;

fn vectors(k: usize) -> Vec<Vec<i8>> {
    let mut out = vec![vec![]];
    for _ in 0..k {
        let mut n = vec![];
        for v in &out {
            for x in [T, F, M] {
                let mut w: Vec<i8> = v.clone();
                w.push(x);
                n.push(w);
            }
        }
        out = n;
    }
    out
}

fn t_or(v: &[i8]) -> i8 {
    if v.iter().any(|x| *x == T) {
        T
    } else if v.iter().any(|x| *x == F) {
        F
    } else {
        M
    }
}
fn t_and(v: &[i8]) -> i8 {
    for x in v {
        if *x != T {
            return *x;
        }
    }
    T
}
fn t_not(x: i8) -> i8 {
    match x {
        T => F,
        F => T,
        _ => F,
    }
}

/// expected value set as a bit mask (1 = T, 2 = F, 4 = M)
fn bits(v: i8) -> u8 {
    match v {
        T => 1,
        F => 2,
        _ => 4,
    }
}
fn exp_all(v: &[i8]) -> u8 {
    if v.iter().all(|x| *x == T) {
        1
    } else {
        2 | 4
    }
}
fn exp_of(v: &[i8], n: usize) -> u8 {
    let t = v.iter().filter(|x| **x == T).count();
    if n == 0 {
        if t > 0 {
            2 | 4
        } else if v.iter().all(|x| *x == F) {
            1
        } else {
            1 | 2 | 4 // none true but some missing: the statement does not say
        }
    } else if t >= n {
        1
    } else {
        2 | 4
    }
}

fn doc_for(vec: &[i8], nested: bool) -> MObj {
    let mut d = MObj::new();
    for (i, v) in vec.iter().enumerate() {
        let name = format!("f{}", i + 1);
        match *v {
            T => d.set(&name, s("v")),
            F => d.set(&name, s("w")),
            _ => {}
        }
    }
    if nested {
        MObj::new().with("n", MVal::Obj(d))
    } else {
        d
    }
}

struct Case {
    form: String,
    yaml: String,
    doc: MObj,
    expect: u8,
    vector: Vec<i8>,
}

fn rule_yaml(idents: &[(String, String)], cond: &str) -> String {
    let mut out = String::from("detection:\n");
    for (k, b) in idents {
        out.push_str(&format!("  {}: {}\n", k, b));
    }
    out.push_str(&format!("  condition: \"{}\"\ntrue_positives: []\ntrue_negatives: []\n", cond));
    out
}

fn chain(k: usize, op: &str, right_nested: bool) -> String {
    let names: Vec<String> = (1..=k).map(|i| format!("X{}", i)).collect();
    if !right_nested || k < 3 {
        names.join(&format!(" {} ", op))
    } else {
        // X1 op (X2 op (X3 op X4))
        let mut out = names[k - 1].clone();
        for i in (0..k - 1).rev() {
            out = format!("{} {} ({})", names[i], op, out);
        }
        out
    }
}

fn cases() -> Vec<Case> {
    let mut out = vec![];
    let letters = ["a", "b", "c", "d"];
    for k in 1..=4usize {
        let xs: Vec<(String, String)> = (1..=k)
            .map(|i| (format!("X{}", i), format!("{{f{}: v}}", i)))
            .collect();
        for vec in vectors(k) {
            let d = doc_for(&vec, false);
            let dn = doc_for(&vec, true);
            for (op, tv) in [("and", t_and(&vec)), ("or", t_or(&vec))] {
                for rn in [false, true] {
                    if rn && k < 3 {
                        continue;
                    }
                    out.push(Case {
                        form: format!("chain-{}{}", op, if rn { "-right-nested" } else { "" }),
                        yaml: rule_yaml(&xs, &chain(k, op, rn)),
                        doc: d.clone(),
                        expect: bits(tv),
                        vector: vec.clone(),
                    });
                    out.push(Case {
                        form: format!("not-chain-{}", op),
                        yaml: rule_yaml(&xs, &format!("not ({})", chain(k, op, rn))),
                        doc: d.clone(),
                        expect: bits(t_not(tv)),
                        vector: vec.clone(),
                    });
                }
            }
            if k >= 2 {
                let nots: Vec<String> = (1..=k).map(|i| format!("not X{}", i)).collect();
                let nv: Vec<i8> = vec.iter().map(|x| t_not(*x)).collect();
                out.push(Case {
                    form: "or-of-negations".into(),
                    yaml: rule_yaml(&xs, &nots.join(" or ")),
                    doc: d.clone(),
                    expect: bits(t_or(&nv)),
                    vector: vec.clone(),
                });
                out.push(Case {
                    form: "and-of-negations".into(),
                    yaml: rule_yaml(&xs, &nots.join(" and ")),
                    doc: d.clone(),
                    expect: bits(t_and(&nv)),
                    vector: vec.clone(),
                });
                // the same with key-level negation in one sequence / mapping
                let nentries: Vec<String> = (1..=k).map(|i| format!("\"not(f{})\": v", i)).collect();
                out.push(Case {
                    form: "sequence-of-negated-keys".into(),
                    yaml: rule_yaml(
                        &[("A".into(), format!("[{}]", nentries.iter().map(|e| format!("{{{}}}", e)).collect::<Vec<_>>().join(", ")))],
                        "A",
                    ),
                    doc: d.clone(),
                    expect: bits(t_or(&nv)),
                    vector: vec.clone(),
                });
                out.push(Case {
                    form: "mapping-of-negated-keys".into(),
                    yaml: rule_yaml(&[("A".into(), format!("{{{}}}", nentries.join(", ")))], "A"),
                    doc: d.clone(),
                    expect: bits(t_and(&nv)),
                    vector: vec.clone(),
                });
            }
            if k == 1 {
                out.push(Case {
                    form: "not".into(),
                    yaml: rule_yaml(&xs, "not X1"),
                    doc: d.clone(),
                    expect: bits(t_not(vec[0])),
                    vector: vec.clone(),
                });
                out.push(Case {
                    form: "not-not".into(),
                    yaml: rule_yaml(&xs, "not not X1"),
                    doc: d.clone(),
                    expect: bits(t_not(t_not(vec[0]))),
                    vector: vec.clone(),
                });
                out.push(Case {
                    form: "not(k)-key-modifier".into(),
                    yaml: rule_yaml(&[("A".into(), "{\"not(f1)\": v}".into())], "A"),
                    doc: d.clone(),
                    expect: bits(t_not(vec[0])),
                    vector: vec.clone(),
                });
            }
            // mapping (and) / sequence (or), plain and nested
            let entries: Vec<String> = (1..=k).map(|i| format!("f{}: v", i)).collect();
            let mapping = format!("{{{}}}", entries.join(", "));
            let seq = format!(
                "[{}]",
                entries.iter().map(|e| format!("{{{}}}", e)).collect::<Vec<_>>().join(", ")
            );
            out.push(Case {
                form: "mapping".into(),
                yaml: rule_yaml(&[("A".into(), mapping.clone())], "A"),
                doc: d.clone(),
                expect: bits(t_and(&vec)),
                vector: vec.clone(),
            });
            out.push(Case {
                form: "sequence".into(),
                yaml: rule_yaml(&[("A".into(), seq.clone())], "A"),
                doc: d.clone(),
                expect: bits(t_or(&vec)),
                vector: vec.clone(),
            });
            out.push(Case {
                form: "nested-mapping".into(),
                yaml: rule_yaml(&[("A".into(), format!("{{n: {}}}", mapping))], "A"),
                doc: dn.clone(),
                expect: bits(t_and(&vec)),
                vector: vec.clone(),
            });
            out.push(Case {
                form: "nested-list-of-mappings".into(),
                yaml: rule_yaml(&[("A".into(), format!("{{n: {}}}", seq))], "A"),
                doc: dn.clone(),
                expect: bits(t_or(&vec)),
                vector: vec.clone(),
            });
            // quantifiers over a sequence identifier
            out.push(Case {
                form: "all(S)".into(),
                yaml: rule_yaml(&[("S".into(), seq.clone())], "all(S)"),
                doc: d.clone(),
                expect: exp_all(&vec),
                vector: vec.clone(),
            });
            for n in 0..=k + 1 {
                out.push(Case {
                    form: format!("of(S,{})", n),
                    yaml: rule_yaml(&[("S".into(), seq.clone())], &format!("of(S, {})", n)),
                    doc: d.clone(),
                    expect: exp_of(&vec, n),
                    vector: vec.clone(),
                });
            }
            // quantifiers over a mapping identifier are not specified by the statement: skipped
            // key lists: one field, so missing is all-or-nothing
            let all_or_nothing = vec.iter().all(|x| *x == M) || vec.iter().all(|x| *x != M);
            if all_or_nothing {
                let members: Vec<String> =
                    (0..k).map(|i| format!("'*{}*'", letters[i])).collect();
                let list = format!("[{}]", members.join(", "));
                let mut kd = MObj::new();
                if vec[0] != M {
                    let mut st = String::from("-");
                    for (i, v) in vec.iter().enumerate() {
                        if *v == T {
                            st.push_str(letters[i]);
                        }
                    }
                    kd.set("f", s(&st));
                }
                for nested in [false, true] {
                    let body = |inner: String| -> String {
                        if nested {
                            format!("{{n: {}}}", inner)
                        } else {
                            inner
                        }
                    };
                    let doc = if nested {
                        MObj::new().with("n", MVal::Obj(kd.clone()))
                    } else {
                        kd.clone()
                    };
                    let tag = if nested { "nested-" } else { "" };
                    out.push(Case {
                        form: format!("{}key-list", tag),
                        yaml: rule_yaml(&[("A".into(), body(format!("{{f: {}}}", list)))], "A"),
                        doc: doc.clone(),
                        expect: bits(t_or(&vec)),
                        vector: vec.clone(),
                    });
                    out.push(Case {
                        form: format!("{}all(k)", tag),
                        yaml: rule_yaml(
                            &[("A".into(), body(format!("{{\"all(f)\": {}}}", list)))],
                            "A",
                        ),
                        doc: doc.clone(),
                        expect: exp_all(&vec),
                        vector: vec.clone(),
                    });
                    for n in 0..=k + 1 {
                        out.push(Case {
                            form: format!("{}of(k,{})", tag, n),
                            yaml: rule_yaml(
                                &[("A".into(), body(format!("{{\"of(f, {})\": {}}}", n, list)))],
                                "A",
                            ),
                            doc: doc.clone(),
                            expect: exp_of(&vec, n),
                            vector: vec.clone(),
                        });
                    }
                }
            }
        }
    }
    out
}

fn leaf(i: usize) -> Expression {
    Expression::Search(Search::Exact("v".into()), format!("f{}", i + 1), false)
}

fn name3(b: u8) -> String {
    let mut v = vec![];
    if b & 1 != 0 {
        v.push("T");
    }
    if b & 2 != 0 {
        v.push("F");
    }
    if b & 4 != 0 {
        v.push("M");
    }
    v.join("|")
}

pub fn run(tier: Tier) -> i32 {
    let mut rep = Report::new("C06", tier);
    let mut st = Stats::default();
    let mut forms: HashMap<String, u64> = HashMap::new();
    let mut outcomes = [0u64; 3];
    // (a) through rule text
    for c in cases() {
        let rule = match eng::load(&c.yaml) {
            Ok(r) => r,
            Err(e) => {
                st.push_violation(Violation {
                    signature: format!("table-rule-does-not-load:{}", c.form),
                    witness: format!("{:?} for {}", e, crate::c01::one_line(&c.yaml)),
                    replay: json!({"kind":"truth-table","rule_yaml":c.yaml}),
                });
                continue;
            }
        };
        *forms.entry(c.form.clone()).or_insert(0) += 1;
        // unoptimised and optimised (grouped) forms must both obey the table for and/or/not;
        // quantifier forms are checked unoptimised (optimised equality is C01's business)
        let quant = c.form.contains("all(") || c.form.contains("of(");
        let mut variants = vec![("as-loaded", rule.clone())];
        if !quant && !c.form.contains("not-not") && !c.form.contains("not-chain") {
            if let Ok((r, _)) = eng::optimise_with(&rule, 0b0011, &[]) {
                variants.push(("coalesced+shaken (group form)", r));
            }
        }
        if c.form.contains("negat") {
            // a negation is never missing, so no reordering can change these tables: they must
            // hold in every optimised form as well
            for sw in [0b0010u8, 0b1111, 0b1010, 0b0111] {
                if let Ok((r, _)) = eng::optimise_with(&rule, sw, &[]) {
                    variants.push(("optimised form of a connective over negations", r));
                }
            }
        }
        for (vn, r) in variants {
            let v = eng::val3(&r, &c.doc).unwrap_or(2);
            let m = eng::matches(&r, &c.doc);
            st.states += 1;
            st.transitions += 2;
            st.traces += 1;
            st.evaluations += 1;
            if v >= -1 && v <= 1 {
                outcomes[(v + 1) as usize] += 1;
            }
            let got = match v {
                1 => 1u8,
                0 => 2,
                -1 => 4,
                _ => 8,
            };
            if got & c.expect == 0 {
                st.push_violation(Violation {
                    signature: format!("{}:{}-instead-of-{}", c.form, eng::v3name(v), name3(c.expect)),
                    witness: format!(
                        "{} operands {:?} -> {} expected {} ; {} ; rule {} doc {}",
                        c.form,
                        c.vector.iter().map(|x| eng::v3name(*x)).collect::<Vec<_>>(),
                        eng::v3name(v),
                        name3(c.expect),
                        vn,
                        crate::c01::one_line(&c.yaml),
                        c.doc.show()
                    ),
                    replay: json!({"kind":"truth-table","rule_yaml":c.yaml,"document":crate::report::mobj_to_json(&c.doc),"variant":vn,"expected":name3(c.expect)}),
                });
            }
            // top level: a match iff the condition is true
            if m != Ok(v == 1) {
                st.push_violation(Violation {
                    signature: "match-iff-true".into(),
                    witness: format!(
                        "condition value {} but matches() = {:?}; rule {} doc {}",
                        eng::v3name(v),
                        m,
                        crate::c01::one_line(&c.yaml),
                        c.doc.show()
                    ),
                    replay: json!({"kind":"truth-table","rule_yaml":c.yaml,"document":crate::report::mobj_to_json(&c.doc)}),
                });
            }
        }
    }
    // (b) hand-built expressions through core (forms the parser cannot produce)
    let ids: HashMap<String, Expression> = HashMap::new();
    for k in 1..=4usize {
        for vec in vectors(k) {
            let d = doc_for(&vec, false);
            let ops: Vec<Expression> = (0..k).map(leaf).collect();
            let mut built: Vec<(String, Expression, u8)> = vec![
                (
                    "core-group-and".into(),
                    Expression::BooleanGroup(BoolSym::And, ops.clone()),
                    bits(t_and(&vec)),
                ),
                (
                    "core-group-or".into(),
                    Expression::BooleanGroup(BoolSym::Or, ops.clone()),
                    bits(t_or(&vec)),
                ),
                (
                    "core-not-group-or".into(),
                    Expression::Negate(Box::new(Expression::BooleanGroup(BoolSym::Or, ops.clone()))),
                    bits(t_not(t_or(&vec))),
                ),
                (
                    "core-all(group)".into(),
                    Expression::Match(
                        Match::All,
                        Box::new(Expression::BooleanGroup(BoolSym::Or, ops.clone())),
                    ),
                    exp_all(&vec),
                ),
            ];
            for n in 0..=k + 1 {
                built.push((
                    format!("core-of(group,{})", n),
                    Expression::Match(
                        Match::Of(n as u64),
                        Box::new(Expression::BooleanGroup(BoolSym::Or, ops.clone())),
                    ),
                    exp_of(&vec, n),
                ));
            }
            if k == 2 {
                built.push((
                    "core-expr-and".into(),
                    Expression::BooleanExpression(
                        Box::new(ops[0].clone()),
                        BoolSym::And,
                        Box::new(ops[1].clone()),
                    ),
                    bits(t_and(&vec)),
                ));
                built.push((
                    "core-expr-or".into(),
                    Expression::BooleanExpression(
                        Box::new(ops[0].clone()),
                        BoolSym::Or,
                        Box::new(ops[1].clone()),
                    ),
                    bits(t_or(&vec)),
                ));
            }
            for (form, e, expect) in built {
                let v = eng::solve3(&e, &ids, &d).unwrap_or(2);
                let b = crate::report::catch(|| tau_engine::core::solve_expression(&e, &ids, &d));
                *forms.entry(form.clone()).or_insert(0) += 1;
                st.states += 1;
                st.transitions += 2;
                st.traces += 1;
                st.evaluations += 1;
                let got = match v {
                    1 => 1u8,
                    0 => 2,
                    -1 => 4,
                    _ => 8,
                };
                if got & expect == 0 || b != Ok(v == 1) {
                    st.push_violation(Violation {
                        signature: format!("{}:{}-instead-of-{}", form, eng::v3name(v), name3(expect)),
                        witness: format!(
                            "{} operands {:?} -> {} (core::solve_expression {:?}) expected {}; expr {}",
                            form,
                            vec.iter().map(|x| eng::v3name(*x)).collect::<Vec<_>>(),
                            eng::v3name(v),
                            b,
                            name3(expect),
                            e
                        ),
                        replay: json!({"kind":"truth-table-core","form":form,"vector":vec,"expected":name3(expect)}),
                    });
                }
            }
        }
    }
    st.nontrivial = st.states;
    st.sample(json!({"form":"chain-and","condition":"X1 and X2 and X3","operands":["T","M","F"],"expected":"M (first non-true)"}));
    st.sample(json!({"form":"of(S,2)","identifier":"[{f1: v}, {f2: v}, {f3: v}]","operands":["T","F","T"],"expected":"T"}));
    let mut fv: Vec<(String, u64)> = forms.into_iter().collect();
    fv.sort();
    rep.extra.insert("rows_per_form".into(), json!(fv));
    rep.extra.insert(
        "distinct_outcomes".into(),
        json!({"missing":outcomes[0],"false":outcomes[1],"true":outcomes[2]}),
    );
    rep.stats.merge(st);
    rep.rule = "every connective form (binary chain left/right nested, not, not over a chain, mapping, sequence, nested mapping, nested list of mappings, key list, all/of over a sequence identifier, all/of over a key list, each plain and inside a nested block; plus hand-built BooleanGroup/BooleanExpression/Match expressions through core) x arity 1..4 x every operand vector in {T,F,M}^k x thresholds 0..k+1; operand results are produced by real predicates (field = v / w / absent); every row is non-trivial (distinct form x vector x threshold)".into();
    rep.assumptions = vec![
        "non-true results of all()/of() and of(0) over missing operands are not fixed by the statement (set-valued expectation)".into(),
    ];
    // or / not / of(.., 2) over 64..300 (and 2048, 55296) operands in identifier-list form, as loaded and optimised: the truth value is known by construction
    rep.stats.merge(crate::wide::run(tier.thorough(), false));
    rep.finish()
}
