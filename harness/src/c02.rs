//! C02: verdicts follow the documented rule language (reference interpreter, set valued).

use rayon::prelude::*;
use serde_json::json;

use crate::c01::one_line;
use crate::eng;
use crate::gen::{self, RuleSpec};
use crate::refint;
use crate::report::{Report, Stats, Tier, Violation};

fn bit(v: i8) -> u8 {
    match v {
        1 => refint::T,
        0 => refint::F,
        -1 => refint::M,
        _ => 0,
    }
}

/// a coarse shape of the rule: condition with identifier bodies abstracted to kinds
pub fn shape(spec: &RuleSpec) -> String {
    fn val_kind(v: &gen::Val) -> String {
        match v {
            gen::Val::Sc(gen::Sc::Str(s)) => match refint::parse_pattern(s) {
                Some((refint::Pat::Regex(_), ci)) => format!("{}re", if ci { "i" } else { "" }),
                Some((refint::Pat::Cmp(_, refint::Num::I(_)), _)) => "cmpi".into(),
                Some((refint::Pat::Cmp(_, refint::Num::F(_)), _)) => "cmpf".into(),
                Some((refint::Pat::Any, _)) => "any".into(),
                Some((_, ci)) => format!("{}str", if ci { "i" } else { "" }),
                None => "badpat".into(),
            },
            gen::Val::Sc(gen::Sc::Int(_)) => "int".into(),
            gen::Val::Sc(gen::Sc::Float(_)) => "flt".into(),
            gen::Val::Sc(gen::Sc::Bool(_)) => "bool".into(),
            gen::Val::Sc(gen::Sc::Null) => "null".into(),
            gen::Val::List(v) => {
                let mut k: Vec<String> = v.iter().map(val_kind).collect();
                k.sort();
                k.dedup();
                format!("[{}]x{}", k.join(","), v.len())
            }
            gen::Val::Map(m) => format!("{{{}}}", entries(m)),
        }
    }
    fn entries(m: &[gen::Entry]) -> String {
        m.iter()
            .map(|e| {
                let km = match refint::parse_key(&e.key) {
                    Some((k, _)) => format!("{:?}", k),
                    None => "?".into(),
                };
                format!("{}:{}", km, val_kind(&e.val))
            })
            .collect::<Vec<_>>()
            .join("&")
    }
    let mut out = spec.cond.clone();
    for (name, b) in &spec.idents {
        let k = match b {
            gen::Body::Map(m) => format!("<{}>", entries(m)),
            gen::Body::Seq(s) => format!(
                "<{}>",
                s.iter().map(|m| entries(m)).collect::<Vec<_>>().join(" | ")
            ),
        };
        out = out.replace(name.as_str(), &k);
    }
    out
}

pub fn check_spec(spec: &RuleSpec, level: u8, doc_cap: usize) -> Stats {
    check_spec_docs(spec, gen::docs_for(spec, level, doc_cap))
}

/// quantified lists on ARRAY fields: only the bound both readings share is asserted (see refint)
fn array_quantifier_cases() -> Vec<(RuleSpec, Vec<crate::mdoc::MObj>)> {
    use crate::gen::{e, list, st, Body};
    use crate::mdoc::{arr, s, MObj};
    let members = ["?a", "?x", "?b$", "a*", "*z", "?^ab", "i?A"];
    let docs: Vec<MObj> = vec![
        vec!["a", "ab"], vec!["a", "b"], vec!["ab", "ab"], vec!["a", "a", "a"], vec!["x"], vec![], vec!["b", "ab", "zb"],
    ]
    .into_iter()
    .map(|v| MObj::new().with("f", arr(v.into_iter().map(s).collect())))
    .collect();
    let mut out = vec![];
    for (i, a) in members.iter().enumerate() {
        for b in members.iter().skip(i + 1) {
            for key in ["of(f, 2)", "all(f)", "of(f, 1)"] {
                for cond in ["A", "not A"] {
                    out.push((
                        RuleSpec { idents: vec![("A".into(), Body::Map(vec![e(key, list(vec![st(a), st(b)]))]))], cond: cond.into() },
                        docs.clone(),
                    ));
                }
            }
            for c in members.iter().take(3) {
                out.push((
                    RuleSpec::one(Body::Map(vec![e("of(f, 3)", list(vec![st(a), st(b), st(c)]))])),
                    docs.clone(),
                ));
                out.push((
                    RuleSpec::one(Body::Map(vec![e("of(f, 2)", list(vec![st(a), st(b), st(c)]))])),
                    docs.clone(),
                ));
            }
        }
    }
    out
}

pub fn check_spec_docs(spec: &RuleSpec, docs: Vec<crate::mdoc::MObj>) -> Stats {
    let mut st = Stats::default();
    let yaml = spec.yaml();
    let rule = match eng::load(&yaml) {
        Ok(r) => r,
        Err(_) => {
            st.count("rules_rejected_by_loader", 1);
            return st;
        }
    };
    st.count("rules_loaded", 1);
    let rr = match refint::parse_rule(&yaml) {
        Some(r) => r,
        None => {
            st.count("rules_outside_reference_model", 1);
            return st;
        }
    };
    let mut any_t = false;
    let mut any_nt = false;
    let mut singleton = 0u64;
    for d in &docs {
        let exp = refint::eval_rule(&rr, d);
        let v = eng::val3(&rule, d).unwrap_or(2);
        let m = eng::matches(&rule, d);
        st.states += 1;
        st.transitions += 2;
        st.traces += 1;
        st.evaluations += 1;
        if exp.count_ones() == 1 {
            singleton += 1;
        }
        if v == 1 {
            any_t = true;
        } else {
            any_nt = true;
        }
        if v == 2 {
            // a panic of a loaded rule is C03's finding; C02 only judges values
            st.count("engine_panics_skipped", 1);
            continue;
        }
        if bit(v) & exp == 0 || m != Ok(v == 1) {
            // recorded finding: the violation disappears when lone all() blocks are evaluated
            // element by element, and the block's field is an array in this document
            let lone = eng::lone_all_blocks(&rule.detection.expression, &rule.detection.identifiers);
            let explained = m == Ok(v == 1)
                && lone.iter().any(|f| matches!(refint::lookup(d, f), Some(crate::mdoc::MVal::Arr(_))))
                && eng::val3_without_lone_all_shortcut(&rule.detection.expression, &rule.detection.identifiers, d)
                    .map(|c| bit(c) & exp != 0)
                    .unwrap_or(false);
            st.push_violation(Violation {
                signature: if explained { eng::LONE_ALL_SIGNATURE.to_string() } else { format!("{} engine={} reference={}", shape(spec), eng::v3name(v), refint::set_name(exp)) },
                witness: format!(
                    "engine {} (matches={:?}) reference {} ; rule {} doc {}",
                    eng::v3name(v),
                    m,
                    refint::set_name(exp),
                    one_line(&yaml),
                    d.show()
                ),
                replay: json!({"kind":"reference","rule_yaml":yaml,"document":crate::report::mobj_to_json(d),"reference":refint::set_name(exp)}),
            });
        }
    }
    st.count("predictions_that_are_singletons", singleton);
    if any_t && any_nt {
        st.nontrivial += 1;
        if st.samples.is_empty() {
            st.sample(json!({"rule": one_line(&yaml), "documents": docs.len(), "example_document": docs.last().map(|d| d.show())}));
        }
    }
    st
}

pub fn run(tier: Tier) -> i32 {
    let mut rep = Report::new("C02", tier);
    let doc_cap = if tier.thorough() { 3000 } else { 600 };
    let dlevel = 2;
    let specs = if tier.thorough() { gen::universe(1) } else { gen::universe_quick() };
    let parts: Vec<Stats> = specs
        .par_iter()
        .map(|s| check_spec(s, dlevel, doc_cap))
        .collect();
    for p in parts {
        rep.stats.merge(p);
    }
    let ac = array_quantifier_cases();
    let parts: Vec<Stats> = ac.par_iter().map(|(sp, d)| check_spec_docs(sp, d.clone())).collect();
    for p in parts {
        rep.stats.merge(p);
    }
    rep.stats.count("array_quantifier_rules", ac.len() as u64);
    rep.stats.count("rule_specs_enumerated", specs.len() as u64);
    rep.rule = "every loadable rule of the bounded universe (unoptimised) x the full product of per-field value alphabets; each (rule, document) is one model trace: the set-valued reference interpreter (own condition parser, pattern parser, path resolver, regex matcher; works from the YAML text) predicts a set of three-valued results and the engine's result must be a member, and matches() must equal (result == true). non-trivial = the rule is discriminating on its document set".into();
    rep.assumptions = vec![
        "where the documentation is silent the reference is multi-valued (DESIGN 4.2)".into(),
        "serde_yaml parses the rule text for both sides".into(),
    ];
    rep.finish()
}
