//! C16: matching reads only the fields the rule names.

use std::borrow::Cow;
use std::collections::BTreeSet;
use std::sync::{Arc, Mutex};

use rayon::prelude::*;
use serde_json::json;
use tau_engine::{AsValue, Document, Object, Value};

use crate::c01::{self, one_line};
use crate::eng;
use crate::gen::{self, Body, Entry, RuleSpec, Val};
use crate::mdoc::{s, MObj, MVal};
use crate::refint;
use crate::report::{Report, Stats, Tier, Violation};

type Log = Arc<Mutex<Vec<(usize, String)>>>; // (depth, key asked)

pub enum RecVal {
    Null,
    Bool(bool),
    Int(i64),
    UInt(u64),
    Float(f64),
    Str(String),
    Arr(Vec<RecVal>),
    Obj(RecObj),
}
pub struct RecObj {
    entries: Vec<(String, RecVal)>,
    depth: usize,
    log: Log,
}
impl AsValue for RecVal {
    fn as_value(&self) -> Value<'_> {
        match self {
            RecVal::Null => Value::Null,
            RecVal::Bool(b) => Value::Bool(*b),
            RecVal::Int(i) => Value::Int(*i),
            RecVal::UInt(u) => Value::UInt(*u),
            RecVal::Float(f) => Value::Float(*f),
            RecVal::Str(s) => Value::String(Cow::Borrowed(s)),
            RecVal::Arr(a) => Value::Array(a),
            RecVal::Obj(o) => Value::Object(o),
        }
    }
}
impl Object for RecObj {
    fn get(&self, key: &str) -> Option<Value<'_>> {
        self.log.lock().unwrap().push((self.depth, key.to_string()));
        self.entries.iter().find(|(k, _)| k == key).map(|(_, v)| v.as_value())
    }
    fn keys(&self) -> Vec<Cow<'_, str>> {
        self.entries.iter().map(|(k, _)| Cow::Borrowed(k.as_str())).collect()
    }
    fn len(&self) -> usize {
        self.entries.len()
    }
}
fn rec_val(v: &MVal, depth: usize, log: &Log) -> RecVal {
    match v {
        MVal::Null => RecVal::Null,
        MVal::Bool(b) => RecVal::Bool(*b),
        MVal::Int(i) => RecVal::Int(*i),
        MVal::UInt(u) => RecVal::UInt(*u),
        MVal::Float(f) => RecVal::Float(*f),
        MVal::Str(s) => RecVal::Str(s.clone()),
        MVal::Arr(a) => RecVal::Arr(a.iter().map(|x| rec_val(x, depth, log)).collect()),
        MVal::Obj(o) => RecVal::Obj(rec_obj(o, depth + 1, log)),
    }
}
pub fn rec_obj(o: &MObj, depth: usize, log: &Log) -> RecObj {
    RecObj {
        entries: o.0.iter().map(|(k, v)| (k.clone(), rec_val(v, depth, log))).collect(),
        depth,
        log: log.clone(),
    }
}

/// A recording *Document*: logs the key strings exactly as the engine presents them to the
/// user's document, then resolves them with the crate's own path resolver.
pub struct RecDoc<'a> {
    inner: &'a MObj,
    asked: Mutex<Vec<String>>,
}
impl Document for RecDoc<'_> {
    fn find(&self, key: &str) -> Option<Value<'_>> {
        self.asked.lock().unwrap().push(key.to_string());
        Object::find(self.inner, key)
    }
}

/// full field strings the rule writes at the top level of its identifiers (modifiers stripped),
/// plus every token of the condition (cast / comparison fields are written there)
pub fn written_top_keys(spec: &RuleSpec) -> BTreeSet<String> {
    let mut out = BTreeSet::new();
    let mut add = |m: &[Entry]| {
        for e in m {
            if let Some((_, field)) = refint::parse_key(&e.key) {
                out.insert(field);
            }
        }
    };
    for (_, b) in &spec.idents {
        match b {
            Body::Map(m) => add(m),
            Body::Seq(rows) => {
                for m in rows {
                    add(m)
                }
            }
        }
    }
    for tok in spec.cond.split(|c: char| c.is_whitespace() || "()=<>,".contains(c)) {
        if !tok.is_empty() {
            out.insert(tok.to_string());
        }
    }
    out
}

/// recorded finding: the loader splits a key at blanks and re-joins it with single blanks, so a
/// key written with a run of blanks is looked up with one blank
fn collapsed_blank_variant(key: &str, written: &BTreeSet<String>, all: &BTreeSet<String>) -> bool {
    let collapse = |k: &str| k.split_whitespace().collect::<Vec<_>>().join(" ");
    written.iter().chain(all.iter()).any(|w| w != key && collapse(w) == key)
}
const BLANKS_SIG: &str = "run-of-blanks-in-a-key-is-collapsed-before-the-lookup";

/// names the rule writes: (top-level first segments, every segment at any level)
pub fn rule_names(spec: &RuleSpec) -> (BTreeSet<String>, BTreeSet<String>) {
    let mut top = BTreeSet::new();
    let mut all = BTreeSet::new();
    fn seg_names(field: &str) -> Vec<String> {
        field
            .split('.')
            .map(|s| match s.find('[') {
                Some(i) => s[..i].to_string(),
                None => s.to_string(),
            })
            .collect()
    }
    fn walk(m: &[Entry], is_top: bool, top: &mut BTreeSet<String>, all: &mut BTreeSet<String>) {
        for e in m {
            if let Some((_, field)) = refint::parse_key(&e.key) {
                let segs = seg_names(&field);
                if is_top {
                    if let Some(f) = segs.first() {
                        top.insert(f.clone());
                    }
                }
                for sname in segs {
                    all.insert(sname);
                }
            }
            match &e.val {
                Val::Map(inner) => walk(inner, false, top, all),
                Val::List(v) => {
                    for x in v {
                        if let Val::Map(inner) = x {
                            walk(inner, false, top, all)
                        }
                    }
                }
                _ => {}
            }
        }
    }
    for (_, b) in &spec.idents {
        match b {
            Body::Map(m) => walk(m, true, &mut top, &mut all),
            Body::Seq(rows) => {
                for m in rows {
                    walk(m, true, &mut top, &mut all)
                }
            }
        }
    }
    for (name, _) in gen::slots(spec) {
        // cast fields of the condition are slots too
        top.insert(name.clone());
        all.insert(name);
    }
    (top, all)
}

fn unaddressed_variants(d: &MObj, top: &BTreeSet<String>, all: &BTreeSet<String>) -> Vec<MObj> {
    let mut out = vec![];
    // names the rule writes only below the top level are unaddressed at the top level
    for name in all.iter().filter(|n| !top.contains(*n)) {
        if d.getm(name).is_none() {
            for v in [s("a"), s("x"), MVal::Int(1)] {
                let mut x = d.clone();
                x.set(name, v);
                out.push(x);
            }
        }
    }
    // the rule's own names in another case are different keys (also in the ignore_case build, which
    // folds the case of string *values* only)
    for name in all.iter() {
        let up = name.to_ascii_uppercase();
        if up != *name && !all.contains(&up) && d.getm(&up).is_none() {
            for v in [s("a"), s("x")] {
                let mut x = d.clone();
                x.set(&up, v);
                out.push(x);
            }
        }
    }
    for (k, v) in [
        ("zz", s("a")),
        ("zz", MVal::Int(1)),
        ("\u{0}", s("a")),
        ("\u{1}", s("x")),
        ("\u{0}", MVal::Int(1)),
        ("ff", s("a")),
        ("", s("a")),
    ] {
        let mut x = d.clone();
        x.set(k, v);
        out.push(x);
    }
    // inside nested objects as well
    let mut x = d.clone();
    let mut changed = false;
    for (_, v) in x.0.iter_mut() {
        if let MVal::Obj(o) = v {
            o.set("zz", s("a"));
            o.set("\u{0}", s("a"));
            for name in all.iter() {
                let up = name.to_ascii_uppercase();
                if up != *name && !all.contains(&up) && o.getm(&up).is_none() {
                    o.set(&up, s("a"));
                }
            }
            changed = true;
        }
    }
    if changed {
        out.push(x);
    }
    out
}

fn check_spec(spec: &RuleSpec, level: u8, doc_cap: usize) -> Stats {
    let mut st = Stats::default();
    let yaml = spec.yaml();
    let rule = match eng::load(&yaml) {
        Ok(r) => r,
        Err(_) => return st,
    };
    let (top, all) = rule_names(spec);
    let written = written_top_keys(spec);
    let docs = gen::docs_for(spec, level, doc_cap);
    let ex = c01::explore_rule(&rule, 64);
    st.transitions += ex.optimise_calls;
    let mut variants: Vec<(u8, &crate::optrep::Det)> = vec![(0, &ex.base)];
    for v in &ex.variants {
        variants.push((v.sw, &v.staged.stages.last().unwrap().1));
    }
    let mut asked_any = false;
    for (sw, det) in variants {
        st.states += 1;
        for d in &docs {
            let log: Log = Arc::new(Mutex::new(vec![]));
            let rd = rec_obj(d, 0, &log);
            let v = eng::solve3(&det.expr, &det.ids, &rd).unwrap_or(2);
            st.transitions += 1;
            st.evaluations += 1;
            st.traces += 1;
            let asked = log.lock().unwrap();
            st.count("find_calls_recorded", asked.len() as u64);
            if !asked.is_empty() {
                asked_any = true;
            }
            for (depth, key) in asked.iter() {
                let synthetic = key.chars().any(|c| (c as u32) < 0x20) || key.is_empty();
                let ok = if *depth == 0 { top.contains(key) } else { all.contains(key) };
                if synthetic || !ok {
                    st.push_violation(Violation {
                        signature: if !synthetic && collapsed_blank_variant(key, &written, &all) {
                            BLANKS_SIG.to_string()
                        } else {
                            format!(
                                "{}-asked:{}",
                                if synthetic { "synthetic-key" } else { "key-not-written-in-the-rule" },
                                if *depth == 0 { "top-level" } else { "nested-object" }
                            )
                        },
                        witness: format!(
                            "find({:?}) at depth {} after optimise({}) ; rule {} doc {}",
                            key,
                            depth,
                            eng::sw_name(sw),
                            one_line(&yaml),
                            d.show()
                        ),
                        replay: json!({"kind":"optimise","rule_yaml":yaml,"sw_bits":sw,"hash_order_choices":[],"document":crate::report::mobj_to_json(d)}),
                    });
                }
            }
            drop(asked);
            // the key strings as presented to a user-written Document
            let rdoc = RecDoc { inner: d, asked: Mutex::new(vec![]) };
            let vd = eng::solve3(&det.expr, &det.ids, &rdoc).unwrap_or(2);
            st.transitions += 1;
            st.evaluations += 1;
            if vd != v {
                st.push_violation(Violation {
                    signature: "recording-document-changes-the-verdict".into(),
                    witness: format!("{} through Object, {} through Document::find after optimise({}) ; rule {} doc {}", eng::v3name(v), eng::v3name(vd), eng::sw_name(sw), one_line(&yaml), d.show()),
                    replay: json!({"kind":"optimise","rule_yaml":yaml,"sw_bits":sw,"hash_order_choices":[],"document":crate::report::mobj_to_json(d)}),
                });
            }
            for key in rdoc.asked.lock().unwrap().iter() {
                st.count("document_find_calls_recorded", 1);
                if !written.contains(key) {
                    st.push_violation(Violation {
                        signature: if collapsed_blank_variant(key, &written, &all) { BLANKS_SIG.to_string() } else { "document-asked-for-a-key-string-the-rule-never-writes".into() },
                        witness: format!("Document::find({:?}) after optimise({}) ; rule {} doc {}", key, eng::sw_name(sw), one_line(&yaml), d.show()),
                        replay: json!({"kind":"optimise","rule_yaml":yaml,"sw_bits":sw,"hash_order_choices":[],"document":crate::report::mobj_to_json(d)}),
                    });
                }
            }
            // unaddressed fields never change the verdict
            for d2 in unaddressed_variants(d, &top, &all) {
                let v2 = eng::solve3(&det.expr, &det.ids, &d2).unwrap_or(2);
                st.transitions += 1;
                st.evaluations += 1;
                if (v2 == 1) != (v == 1) {
                    st.push_violation(Violation {
                        signature: "verdict-depends-on-an-unaddressed-field".into(),
                        witness: format!(
                            "{} on {} but {} on {} after optimise({}) ; rule {}",
                            eng::v3name(v),
                            d.show(),
                            eng::v3name(v2),
                            d2.show(),
                            eng::sw_name(sw),
                            one_line(&yaml)
                        ),
                        replay: json!({"kind":"optimise","rule_yaml":yaml,"sw_bits":sw,"hash_order_choices":[],"document":crate::report::mobj_to_json(&d2)}),
                    });
                }
            }
        }
    }
    if asked_any {
        st.nontrivial += 1;
    }
    st
}

pub fn run(tier: Tier) -> i32 {
    let mut rep = Report::new("C16", tier);
    let th = tier.thorough();
    // the same exploration (a strided slice) on the crate built with `sync` (own copies of find /
    // adapters) and with `ignore_case` (keys stay case-sensitive there), started now, collected below
    let sy_exe = "/verif/harness/target-sy/release/tv";
    let ic_exe = "/verif/harness/target-ic/release/tv";
    let sy_child = crate::report::start_variant("C16", tier, "sync", sy_exe);
    let ic_child = crate::report::start_variant("C16", tier, "ignore_case", ic_exe);
    let level = if th { 1 } else { 0 };
    let specs: Vec<RuleSpec> = if th {
        let mut v = gen::family_single(1);
        v.extend(gen::family_bodies(1));
        v.extend(gen::family_conditions(1));
        v.extend(gen::family_matrix(0));
        v.extend(gen::family_matrix(1).into_iter().step_by(23));
        v
    } else {
        gen::universe_quick()
    };
    // keys that are written with a blank, a '#', or non-ASCII text must reach the document verbatim
    let mut specs = specs;
    {
        use crate::gen::{e, int, list, map, st};
        for k in ["f g", "process name", "f  g", "é f", "#text", "f#g", "a-b", "a b.c d"] {
            specs.push(RuleSpec::one(Body::Map(vec![e(k, st("a"))])));
            specs.push(RuleSpec::one(Body::Map(vec![e(&format!("str({})", k), st("1")), e("g", st("x"))])));
            specs.push(RuleSpec::one(Body::Map(vec![e(&format!("all({})", k), list(vec![st("a*"), st("*b")]))])));
            specs.push(RuleSpec::one(Body::Map(vec![e("n", map(vec![e(k, st("a"))]))])));
            specs.push(RuleSpec::one(Body::Seq(vec![vec![e(k, st("a")), e("g", st("x"))], vec![e(k, st("b"))], vec![e("g", int(1))]])));
        }
    }
    // the sync and ignore_case builds run a strided slice of the universe (plus all special-key rules)
    if crate::report::variant().is_some() {
        let n = specs.len();
        let tail: Vec<RuleSpec> = specs.split_off(n - 40);
        specs = specs.into_iter().step_by(8).collect();
        specs.extend(tail);
    }
    let doc_cap = if th { 300 } else { 100 };
    let parts: Vec<Stats> = specs.par_iter().map(|sp| check_spec(sp, 1, doc_cap)).collect();
    for p in parts {
        rep.stats.merge(p);
    }
    rep.stats.count("rule_specs", specs.len() as u64);
    rep.stats.sample(json!({"rule":"A: [{f: 'a*', g: x}, {f: '*b'}] (becomes a matrix)","recorded":["f","g"],"never":["\\u0000","\\u0001"]}));
    rep.rule = "every loadable rule of the shared universe x every switch set (distinct optimised trees, all hash orders) x the document product, evaluated on a recording document (every get() on the document and on every nested object is logged). Oracle: (1) each key asked at the top level is the first segment of a key written at the top level of an identifier or a cast field of the condition; each key asked on a nested object is a segment written somewhere in the rule; and every key string presented to a recording Document::find is, verbatim, a key written at the top level of an identifier or a field written in the condition; no key containing a character below U+0020 (the matrix's synthetic column keys) or the empty key is ever asked; (2) for every document, adding an unaddressed field (zz, ff, the synthetic names U+0000 / U+0001, the empty name; at top level and inside nested objects) leaves the verdict unchanged. non-trivial = the rule asked for at least one key".into();
    rep.assumptions = vec!["key attribution is by segment name, not by exact nesting path".into()];
    let vrc = crate::report::finish_variant(&mut rep, "sync", sy_exe, sy_child);
    let irc = crate::report::finish_variant(&mut rep, "ignore_case", ic_exe, ic_child);
    if vrc >= 2 || irc >= 2 {
        return 2;
    }
    let rc = rep.finish();
    rc.max(vrc).max(irc)
}
