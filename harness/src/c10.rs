//! C10: field paths resolve to exactly the addressed value.

use std::collections::HashMap;

use rayon::prelude::*;
use serde_json::json;
use tau_engine::{Document, Object, Value};

use crate::eng;
use crate::mdoc::{self, MObj, MVal};
use crate::refint;
use crate::report::{Report, Stats, Tier, Violation};

// ---------------------------------------------------------------------------------------------
// document shapes: D ::= leaf | {} | {a:D} | {a:D,b:D} | {b:D} | [] | [D] | [D,D]

#[derive(Clone, Debug)]
enum Shape {
    Leaf,
    Obj(Vec<(&'static str, Shape)>),
    Arr(Vec<Shape>),
}

fn shapes(depth: usize, budget: usize) -> Vec<(Shape, usize)> {
    shapes_k(depth, budget, "a", "b")
}

fn shapes_k(depth: usize, budget: usize, k1: &'static str, k2: &'static str) -> Vec<(Shape, usize)> {
    // returns (shape, nodes used)
    let mut out = vec![];
    if budget == 0 {
        return out;
    }
    out.push((Shape::Leaf, 1));
    out.push((Shape::Obj(vec![]), 1));
    out.push((Shape::Arr(vec![]), 1));
    if depth == 0 || budget < 2 {
        return out;
    }
    let subs = shapes_k(depth - 1, budget - 1, k1, k2);
    for (s, n) in &subs {
        out.push((Shape::Obj(vec![(k1, s.clone())]), n + 1));
        out.push((Shape::Obj(vec![(k2, s.clone())]), n + 1));
        out.push((Shape::Arr(vec![s.clone()]), n + 1));
    }
    for (s1, n1) in &subs {
        if n1 + 2 > budget {
            continue;
        }
        let subs2 = shapes_k(depth - 1, budget - 1 - n1, k1, k2);
        for (s2, n2) in &subs2 {
            out.push((Shape::Obj(vec![(k1, s1.clone()), (k2, s2.clone())]), n1 + n2 + 1));
            out.push((Shape::Arr(vec![s1.clone(), s2.clone()]), n1 + n2 + 1));
        }
    }
    out
}

fn realise(s: &Shape, counter: &mut usize) -> MVal {
    match s {
        Shape::Leaf => {
            let v = MVal::Str(format!("s{}", *counter));
            *counter += 1;
            v
        }
        Shape::Obj(es) => MVal::Obj(MObj(
            es.iter()
                .map(|(k, v)| (k.to_string(), realise(v, counter)))
                .collect(),
        )),
        Shape::Arr(es) => MVal::Arr(es.iter().map(|v| realise(v, counter)).collect()),
    }
}

pub fn documents(depth: usize, budget: usize) -> Vec<MObj> {
    documents_k(depth, budget, "a", "b")
}

pub fn documents_k(depth: usize, budget: usize, k1: &'static str, k2: &'static str) -> Vec<MObj> {
    let mut out = vec![];
    for (s, _) in shapes_k(depth, budget, k1, k2) {
        if let Shape::Obj(_) = s {
            let mut c = 0;
            if let MVal::Obj(o) = realise(&s, &mut c) {
                out.push(o);
            }
        }
    }
    out
}

pub fn paths(max_seg: usize) -> Vec<String> {
    paths_k(max_seg, "a", "b")
}

pub fn paths_k(max_seg: usize, k1: &str, k2: &str) -> Vec<String> {
    let mut segs: Vec<String> = vec![];
    for k in [k1, k2] {
        segs.push(k.to_string());
        for i in 0..3 {
            segs.push(format!("{}[{}]", k, i));
        }
    }
    let mut out: Vec<String> = vec![];
    let mut cur: Vec<String> = vec![String::new()];
    for _ in 0..max_seg {
        let mut next = vec![];
        for c in &cur {
            for s in &segs {
                next.push(if c.is_empty() { s.clone() } else { format!("{}.{}", c, s) });
            }
        }
        out.extend(next.iter().cloned());
        cur = next;
    }
    out
}

pub fn value_to_mval(v: &Value<'_>, depth: usize) -> MVal {
    match v {
        Value::Null => MVal::Null,
        Value::Bool(b) => MVal::Bool(*b),
        Value::Float(f) => MVal::Float(*f),
        Value::Int(i) => MVal::Int(*i),
        Value::UInt(u) => MVal::UInt(*u),
        Value::String(s) => MVal::Str(s.to_string()),
        Value::Array(a) => {
            if depth > 8 {
                return MVal::Null;
            }
            MVal::Arr(a.iter().map(|x| value_to_mval(&x, depth + 1)).collect())
        }
        Value::Object(o) => {
            if depth > 8 {
                return MVal::Null;
            }
            let mut keys: Vec<String> = o.keys().iter().map(|k| k.to_string()).collect();
            keys.sort();
            MVal::Obj(MObj(
                keys.into_iter()
                    .filter_map(|k| o.get(&k).map(|v| (k.clone(), value_to_mval(&v, depth + 1))))
                    .collect(),
            ))
        }
    }
}

fn sort_obj(v: &MVal) -> MVal {
    match v {
        MVal::Obj(o) => {
            let mut e: Vec<(String, MVal)> = o.0.iter().map(|(k, v)| (k.clone(), sort_obj(v))).collect();
            e.sort_by(|a, b| a.0.cmp(&b.0));
            MVal::Obj(MObj(e))
        }
        MVal::Arr(a) => MVal::Arr(a.iter().map(sort_obj).collect()),
        x => x.clone(),
    }
}

/// why the reference says "missing"
fn missing_reason(obj: &MObj, path: &str) -> &'static str {
    let mut cur: Option<&MVal> = None;
    let mut first = true;
    for seg in path.split('.') {
        let o: &MObj = if first {
            obj
        } else {
            match cur {
                Some(MVal::Obj(o)) => o,
                Some(MVal::Arr(_)) => return "array-in-the-middle",
                _ => return "scalar-in-the-middle",
            }
        };
        first = false;
        let (name, idx) = match refint::split_index(seg) {
            Some(x) => x,
            None => return "malformed-segment",
        };
        let v = match o.getm(name) {
            Some(v) => v,
            None => return "key-absent",
        };
        cur = Some(match idx {
            None => v,
            Some(i) => match v {
                MVal::Arr(a) => match a.get(i) {
                    Some(x) => x,
                    None => return "index-out-of-range",
                },
                _ => return "indexed-value-is-not-an-array",
            },
        });
    }
    "present"
}

struct Reps {
    m: MObj,
    yaml: serde_yaml::Mapping,
    json: serde_json::Map<String, serde_json::Value>,
    std: HashMap<String, mdoc::StdNode>,
}

fn find_all(r: &Reps, path: &str) -> Vec<(&'static str, Result<Option<MVal>, String>)> {
    let conv = |v: Option<Value<'_>>| v.map(|x| sort_obj(&value_to_mval(&x, 0)));
    vec![
        ("hand-written Object", crate::report::catch(|| conv(Object::find(&r.m, path)))),
        ("serde_yaml::Mapping", crate::report::catch(|| conv(Object::find(&r.yaml, path)))),
        ("serde_json::Map", crate::report::catch(|| conv(Object::find(&r.json, path)))),
        ("HashMap<String,_>", crate::report::catch(|| conv(Object::find(&r.std, path)))),
        (
            "serde_json::Value as Document",
            crate::report::catch(|| {
                let v = serde_json::Value::Object(r.json.clone());
                conv(Document::find(&v, path))
            }),
        ),
        (
            "&dyn Object as Document",
            crate::report::catch(|| {
                let o: &dyn Object = &r.m;
                conv(Document::find(&o, path))
            }),
        ),
    ]
}

fn check_doc(d: &MObj, paths: &[String]) -> Stats {
    let mut st = Stats::default();
    let reps = Reps {
        m: d.clone(),
        yaml: mdoc::to_yaml_map(d),
        json: mdoc::to_json_map(d).unwrap(),
        std: mdoc::to_std_map(d, 0),
    };
    let mut some = false;
    let mut none = false;
    for p in paths {
        let want = refint::lookup(d, p).map(sort_obj);
        if want.is_some() {
            some = true
        } else {
            none = true
        }
        for (rep, got) in find_all(&reps, p) {
            st.states += 1;
            st.transitions += 1;
            st.traces += 1;
            st.evaluations += 1;
            let bad = match &got {
                Err(_) => Some("panic".to_string()),
                Ok(g) => {
                    if *g == want {
                        None
                    } else {
                        Some(match (&want, g) {
                            (None, Some(_)) => format!("value-fabricated-after:{}", missing_reason(d, p)),
                            (Some(_), None) => "addressed-value-not-found".to_string(),
                            _ => "wrong-value".to_string(),
                        })
                    }
                }
            };
            if let Some(kind) = bad {
                st.push_violation(Violation {
                    signature: format!("find:{}", kind),
                    witness: format!(
                        "{}: find({:?}) on {} = {} ; reference {}",
                        rep,
                        p,
                        d.show(),
                        match &got {
                            Ok(Some(v)) => v.show(),
                            Ok(None) => "missing".into(),
                            Err(e) => format!("PANIC {}", e),
                        },
                        want.as_ref().map(|v| v.show()).unwrap_or("missing".into())
                    ),
                    replay: json!({"kind":"find","path":p,"document":crate::report::mobj_to_json(d),"representation":rep}),
                });
            }
        }
    }
    if some && none {
        st.nontrivial += 1;
    }
    st
}

fn rule_for(key: &str, val: &str) -> String {
    format!(
        "detection:\n  A: {{{}: {}}}\n  condition: A\ntrue_positives: []\ntrue_negatives: []\n",
        serde_json::to_string(key).unwrap(),
        serde_json::to_string(val).unwrap()
    )
}

/// nested form of a dotted path without indices: a.b.c: x  ->  a: {b: {c: x}}
fn nested_rule(path: &str, val: &str) -> String {
    let segs: Vec<&str> = path.split('.').collect();
    let mut body = serde_json::to_string(val).unwrap();
    for s in segs.iter().rev() {
        body = format!("{{{}: {}}}", s, body);
    }
    format!(
        "detection:\n  A: {}\n  condition: A\ntrue_positives: []\ntrue_negatives: []\n",
        body
    )
}

fn intermediates_are_objects(d: &MObj, path: &str) -> bool {
    let segs: Vec<&str> = path.split('.').collect();
    let mut cur: &MObj = d;
    for s in &segs[..segs.len() - 1] {
        match cur.getm(s) {
            Some(MVal::Obj(o)) => cur = o,
            None => return true, // missing both ways
            _ => return false,
        }
    }
    true
}

pub fn run(tier: Tier) -> i32 {
    let mut rep = Report::new("C10", tier);
    let th = tier.thorough();
    let docs = if th { documents(4, 7) } else { documents(4, 6) };
    let ps = paths(if th { 4 } else { 3 });
    rep.stats.count("documents", docs.len() as u64);
    rep.stats.count("paths", ps.len() as u64);
    // (1) find() on every representation
    let parts: Vec<Stats> = docs.par_iter().map(|d| check_doc(d, &ps)).collect();
    for p in parts {
        rep.stats.merge(p);
    }
    // (1b) keys that look like indices ("0", "1"): a member named "0" is not element 0
    // (also names with multi-byte characters and with a blank: offsets inside a segment are bytes)
    for (k1, k2) in [("a", "0"), ("0", "1"), ("é", "a"), ("日本", "é"), ("a b", "b")] {
        let docs_n = documents_k(3, if th { 6 } else { 5 }, k1, k2);
        let ps_n = paths_k(3, k1, k2);
        rep.stats.count("documents_with_numeric_keys", docs_n.len() as u64);
        let parts: Vec<Stats> = docs_n.par_iter().map(|d| check_doc(d, &ps_n)).collect();
        for p in parts {
            rep.stats.merge(p);
        }
    }
    // (2) through Rule::matches: `path: s_k` matches iff the addressed value is the string s_k
    //     (or an array containing it); unique leaves catch a value taken from elsewhere
    let leaves: Vec<String> = (0..(if th { 5 } else { 4 })).map(|i| format!("s{}", i)).collect();
    let rule_paths: Vec<&String> = ps.iter().filter(|p| p.split('.').count() <= 3).collect();
    let jobs: Vec<(&String, &String)> = rule_paths
        .iter()
        .flat_map(|p| leaves.iter().map(move |l| (*p, l)))
        .collect();
    let parts: Vec<Stats> = jobs
        .par_iter()
        .map(|(p, leaf)| {
            let mut st = Stats::default();
            let yaml = rule_for(p, leaf);
            let rule = match eng::load(&yaml) {
                Ok(r) => r,
                Err(_) => {
                    st.count("path_rules_rejected", 1);
                    return st;
                }
            };
            let mut t = false;
            for d in &docs {
                let want = match refint::lookup(d, p) {
                    Some(MVal::Str(x)) => x == *leaf,
                    Some(MVal::Arr(a)) => a.iter().any(|x| matches!(x, MVal::Str(y) if y == *leaf)),
                    _ => false,
                };
                let got = eng::matches(&rule, d);
                st.states += 1;
                st.transitions += 1;
                st.traces += 1;
                st.evaluations += 1;
                if want {
                    t = true;
                }
                if got != Ok(want) {
                    st.push_violation(Violation {
                        signature: format!(
                            "matches:{}",
                            if want { "addressed-value-not-matched".to_string() } else { format!("matched-a-value-not-at-the-path:{}", missing_reason(d, p)) }
                        ),
                        witness: format!("rule {{{}: {}}} on {} = {:?}, reference {}", p, leaf, d.show(), got, want),
                        replay: json!({"kind":"reference","rule_yaml":yaml,"document":crate::report::mobj_to_json(d)}),
                    });
                }
            }
            if t {
                st.nontrivial += 1;
            }
            st
        })
        .collect();
    for p in parts {
        rep.stats.merge(p);
    }
    // (3) nested mappings: same verdict as the dotted key when the intermediates are objects;
    //     reference (existential over arrays of objects) otherwise
    let plain_paths: Vec<String> = {
        let mut v = vec![];
        for a in ["a", "b"] {
            for b in ["a", "b"] {
                v.push(format!("{}.{}", a, b));
                for c in ["a", "b"] {
                    v.push(format!("{}.{}.{}", a, b, c));
                }
            }
        }
        v
    };
    let jobs: Vec<(&String, &String)> = plain_paths
        .iter()
        .flat_map(|p| leaves.iter().map(move |l| (p, l)))
        .collect();
    let parts: Vec<Stats> = jobs
        .par_iter()
        .map(|(p, leaf)| {
            let mut st = Stats::default();
            let ny = nested_rule(p, leaf);
            let dy = rule_for(p, leaf);
            let (nr, dr) = match (eng::load(&ny), eng::load(&dy)) {
                (Ok(a), Ok(b)) => (a, b),
                _ => return st,
            };
            let rr = match refint::parse_rule(&ny) {
                Some(r) => r,
                None => return st,
            };
            let optimised: Vec<(u8, tau_engine::Rule)> = [0b0010u8, 0b1111, 0b1000]
                .iter()
                .filter_map(|sw| eng::optimise_with(&nr, *sw, &[]).ok().map(|x| (*sw, x.0)))
                .collect();
            for d in &docs {
                let n = eng::val3(&nr, d).unwrap_or(2);
                let dd = eng::val3(&dr, d).unwrap_or(2);
                let exp = refint::eval_rule(&rr, d);
                for (sw, o) in &optimised {
                    let v = eng::val3(o, d).unwrap_or(2);
                    st.transitions += 1;
                    st.evaluations += 1;
                    let vb = match v {
                        1 => refint::T,
                        0 => refint::F,
                        -1 => refint::M,
                        _ => 0,
                    };
                    if vb & exp == 0 {
                        st.push_violation(Violation {
                            signature: "nested-mapping:optimised-form-differs-from-reference".into(),
                            witness: format!("nested form of {}: {} after optimise({}) on {} = {} ; reference {}", p, leaf, eng::sw_name(*sw), d.show(), eng::v3name(v), refint::set_name(exp)),
                            replay: json!({"kind":"optimise","rule_yaml":ny,"sw_bits":sw,"hash_order_choices":[],"document":crate::report::mobj_to_json(d)}),
                        });
                    }
                }
                st.states += 1;
                st.transitions += 2;
                st.traces += 1;
                st.evaluations += 1;
                let nb = match n {
                    1 => refint::T,
                    0 => refint::F,
                    -1 => refint::M,
                    _ => 0,
                };
                if nb & exp == 0 {
                    st.push_violation(Violation {
                        signature: "nested-mapping:differs-from-reference".into(),
                        witness: format!("nested form of {}: {} on {} = {} ; reference {}", p, leaf, d.show(), eng::v3name(n), refint::set_name(exp)),
                        replay: json!({"kind":"reference","rule_yaml":ny,"document":crate::report::mobj_to_json(d)}),
                    });
                }
                if intermediates_are_objects(d, p) && (n == 1) != (dd == 1) {
                    st.push_violation(Violation {
                        signature: "nested-mapping:differs-from-dotted-key".into(),
                        witness: format!("{}: {} nested={} dotted={} on {}", p, leaf, eng::v3name(n), eng::v3name(dd), d.show()),
                        replay: json!({"kind":"reference","rule_yaml":ny,"dotted_rule_yaml":dy,"document":crate::report::mobj_to_json(d)}),
                    });
                }
            }
            st
        })
        .collect();
    for p in parts {
        rep.stats.merge(p);
    }
    // (3b) a nested block that is one cell of a row in a sequence of mappings (the shape the matrix
    //      pass turns into a table): the block must keep addressing exactly its own path, as
    //      loaded and after every optimiser switch set that rebuilds rows
    let row_paths = ["a.a", "a.b", "a.a.b", "a.b.a"];
    let mut jobs: Vec<(&str, &String, &String)> = vec![];
    for p in row_paths {
        for l1 in &leaves {
            for l2 in leaves.iter().take(3) {
                jobs.push((p, l1, l2));
            }
        }
    }
    let parts: Vec<Stats> = jobs
        .par_iter()
        .map(|(p, l1, l2)| {
            let mut st = Stats::default();
            let segs: Vec<&str> = p.split('.').collect();
            let mut body = serde_json::to_string(l1).unwrap();
            for sg in segs.iter().rev() {
                body = format!("{{{}: {}}}", sg, body);
            }
            // body is {a: {..}}: splice the shared leaf field b into the same row
            let row = format!("{{b: {}, {}", serde_json::to_string(l2).unwrap(), &body[1..]);
            let yaml = format!(
                "detection:\n  A:\n    - {}\n    - {{b: zz, c: zz}}\n    - {{b: zy}}\n  condition: A\ntrue_positives: []\ntrue_negatives: []\n",
                row
            );
            let (rule, rr) = match (eng::load(&yaml), refint::parse_rule(&yaml)) {
                (Ok(a), Some(b)) => (a, b),
                _ => {
                    st.count("row_rules_rejected", 1);
                    return st;
                }
            };
            let forms: Vec<(u8, tau_engine::Rule)> = (0u8..16)
                .filter_map(|sw| eng::optimise_with(&rule, sw, &[]).ok().map(|x| (sw, x.0)))
                .collect();
            let mut t = false;
            for d in &docs {
                let exp = refint::eval_rule(&rr, d);
                for (sw, o) in &forms {
                    let v = eng::val3(o, d).unwrap_or(2);
                    st.states += 1;
                    st.transitions += 1;
                    st.evaluations += 1;
                    st.traces += 1;
                    if v == 1 {
                        t = true;
                    }
                    let ok = if v == 1 { exp & refint::T != 0 } else { v != 2 && exp != refint::T };
                    if !ok {
                        st.push_violation(Violation {
                            signature: format!("nested-block-in-a-row:{}", if *sw == 0 { "differs-from-reference" } else { "optimised-form-differs-from-reference" }),
                            witness: format!("row with nested {}: {} after optimise({}) on {} = {} ; reference {}", p, l1, eng::sw_name(*sw), d.show(), eng::v3name(v), refint::set_name(exp)),
                            replay: json!({"kind":"optimise","rule_yaml":yaml,"sw_bits":sw,"hash_order_choices":[],"document":crate::report::mobj_to_json(d)}),
                        });
                    }
                }
            }
            if t {
                st.nontrivial += 1;
            }
            st
        })
        .collect();
    for p in parts {
        rep.stats.merge(p);
    }
    // (3c) nested blocks with SEVERAL conditions, some of them dotted keys that share their first
    //      segment (two conditions can live in one member of the element), over objects and
    //      arrays of objects: some element must satisfy the whole block
    {
        let inner_keys = ["a", "b", "a.a", "a.b", "b.a", "b.b"];
        let mut bodies: Vec<String> = vec![];
        for (i, k1) in inner_keys.iter().enumerate() {
            for k2 in inner_keys.iter().skip(i + 1) {
                for (l1, l2) in [(0usize, 1usize), (1, 0), (0, 2)] {
                    if l1 < leaves.len() && l2 < leaves.len() {
                        bodies.push(format!("{{{}: {}, {}: {}}}", k1, leaves[l1], k2, leaves[l2]));
                    }
                }
            }
        }
        bodies.push(format!("{{a.a: {}, a.b: {}, b: {}}}", leaves[0], leaves[1], leaves[2]));
        let jobs: Vec<(&str, &String)> = ["a", "b"].iter().flat_map(|c| bodies.iter().map(move |b| (*c, b))).collect();
        let parts: Vec<Stats> = jobs
            .par_iter()
            .map(|(container, body)| {
                let mut st = Stats::default();
                let yaml = format!("detection:\n  A: {{{}: {}}}\n  condition: A\ntrue_positives: []\ntrue_negatives: []\n", container, body);
                let (rule, rr) = match (eng::load(&yaml), refint::parse_rule(&yaml)) {
                    (Ok(a), Some(b)) => (a, b),
                    _ => {
                        st.count("multi_condition_block_rules_rejected", 1);
                        return st;
                    }
                };
                let forms: Vec<(u8, tau_engine::Rule)> = [0u8, 0b1111, 0b0010, 0b1000]
                    .iter()
                    .filter_map(|sw| eng::optimise_with(&rule, *sw, &[]).ok().map(|x| (*sw, x.0)))
                    .collect();
                let mut t = false;
                for d in &docs {
                    let exp = refint::eval_rule(&rr, d);
                    for (sw, o) in &forms {
                        let v = eng::val3(o, d).unwrap_or(2);
                        st.states += 1;
                        st.transitions += 1;
                        st.evaluations += 1;
                        st.traces += 1;
                        if v == 1 {
                            t = true;
                        }
                        let ok = if v == 1 { exp & refint::T != 0 } else { v != 2 && exp != refint::T };
                        if !ok {
                            st.push_violation(Violation {
                                signature: format!("nested-block-with-several-conditions:{}", if *sw == 0 { "differs-from-reference" } else { "optimised-form-differs-from-reference" }),
                                witness: format!("{}: {} after optimise({}) on {} = {} ; reference {}", container, body, eng::sw_name(*sw), d.show(), eng::v3name(v), refint::set_name(exp)),
                                replay: json!({"kind":"optimise","rule_yaml":yaml,"sw_bits":sw,"hash_order_choices":[],"document":crate::report::mobj_to_json(d)}),
                            });
                        }
                    }
                }
                if t {
                    st.nontrivial += 1;
                }
                st
            })
            .collect();
        for p in parts {
            rep.stats.merge(p);
        }
    }
    // (4) totality of find() on arbitrary key strings (no value oracle)
    let alpha = ["a", ".", "[", "]", "0", "1", "-", "+", " "];
    let maxlen = if th { 6 } else { 5 };
    let mut keys = vec![String::new()];
    let mut cur = vec![String::new()];
    for _ in 0..maxlen {
        let mut next = vec![];
        for c in &cur {
            for a in alpha {
                next.push(format!("{}{}", c, a));
            }
        }
        keys.extend(next.iter().cloned());
        cur = next;
    }
    let probe_docs: Vec<MObj> = docs.iter().step_by((docs.len() / 6).max(1)).cloned().collect();
    let parts: Vec<Stats> = keys
        .par_chunks(4096)
        .map(|chunk| {
            let mut st = Stats::default();
            for k in chunk {
                for d in &probe_docs {
                    let y = mdoc::to_yaml_map(d);
                    let r = crate::report::catch(|| {
                        let _ = Object::find(d, k);
                        let _ = Object::find(&y, k);
                    });
                    st.transitions += 2;
                    st.evaluations += 1;
                    if let Err(e) = r {
                        st.push_violation(Violation {
                            signature: "find:panic-on-arbitrary-key".into(),
                            witness: format!("find({:?}) on {} panics: {}", k, d.show(), e),
                            replay: json!({"kind":"find","path":k,"document":crate::report::mobj_to_json(d)}),
                        });
                    }
                }
            }
            st
        })
        .collect();
    for p in parts {
        rep.stats.merge(p);
    }
    rep.stats.count("arbitrary_keys", keys.len() as u64);
    rep.stats.sample(json!({"path":"a.a.a","document":"{a: {}}","reference":"missing"}));
    rep.stats.sample(json!({"path":"a[1].b","document":docs.last().map(|d| d.show()),"reference":"per resolver"}));
    rep.rule = "paths: every sequence of 1..N segments over keys {a,b} each with optional index [0..2]; documents: every tree D ::= leaf | {} | {a:D} | {b:D} | {a:D,b:D} | [] | [D] | [D,D] up to the depth/node bound with unique string leaves; full product on 5 representations (hand-written Object, serde_yaml Mapping, serde_json Map, HashMap of std types, &dyn Object) against the reference resolver (identity of the addressed value); the same through Rule::matches with `path: leaf` for every leaf; nested-mapping form vs dotted form vs reference; nested blocks with several conditions incl. dotted keys sharing a first segment vs reference; a nested block as one cell of a row in a sequence of mappings under all 16 switch sets vs reference; totality on every key string over {a . [ ] 0 1 - + space} up to the length bound. non-trivial = document has both resolving and non-resolving paths".into();
    rep.assumptions = vec!["malformed index syntax (a[0][1], a[x]) has no value oracle, only totality".into()];
    // matrix cells beyond column 127 / 2047 must still be answered from their own field, never from another column
    if crate::report::variant().is_none() {
        rep.stats.merge(crate::wide::run(tier.thorough(), false));
    }
    // the same exploration on the crate built with its `sync` feature (own copies of find / adapters)
    let vrc = crate::report::run_variant(&mut rep, "sync", "/verif/harness/target-sy/release/tv");
    if vrc >= 2 {
        return 2;
    }
    let rc = rep.finish();
    rc.max(vrc)
}
