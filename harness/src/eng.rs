//! Thin wrappers around the subject: load / optimise under a choice script / observe.

use std::collections::HashMap;

use tau_engine::core::parser::Expression;
use tau_engine::{Document, Optimisations, Rule};

use crate::report::catch;

/// bit0 coalesce, bit1 shake, bit2 rewrite, bit3 matrix
pub type Sw = u8;
pub const SW_DEFAULT: Sw = 0b1111;

pub fn opts(sw: Sw) -> Optimisations {
    Optimisations {
        coalesce: sw & 1 != 0,
        shake: sw & 2 != 0,
        rewrite: sw & 4 != 0,
        matrix: sw & 8 != 0,
    }
}
pub fn sw_name(sw: Sw) -> String {
    let mut v = vec![];
    if sw & 1 != 0 {
        v.push("coalesce");
    }
    if sw & 2 != 0 {
        v.push("shake");
    }
    if sw & 4 != 0 {
        v.push("rewrite");
    }
    if sw & 8 != 0 {
        v.push("matrix");
    }
    if v.is_empty() {
        "none".into()
    } else {
        v.join("+")
    }
}

#[derive(Debug, Clone)]
pub enum LoadErr {
    Err(String),
    Panic(String),
}

pub fn load(yaml: &str) -> Result<Rule, LoadErr> {
    match catch(|| Rule::from_str(yaml)) {
        Ok(Ok(r)) => Ok(r),
        Ok(Err(e)) => Err(LoadErr::Err(format!("{}", e))),
        Err(p) => Err(LoadErr::Panic(p)),
    }
}

/// Optimises a clone of `rule` with `sw`, replaying `choices` at the hash-order choice points.
/// Returns the optimised rule and the trace of choice points, or the panic message.
pub fn optimise_with(
    rule: &Rule,
    sw: Sw,
    choices: &[u32],
) -> Result<(Rule, Vec<(u32, u32)>), String> {
    let r = rule.clone();
    tau_engine::verif::set_script(choices.to_vec());
    let res = catch(move || r.optimise(opts(sw)));
    let trace = tau_engine::verif::take_trace();
    res.map(|r| (r, trace))
}

/// The rule with its `identifiers` map rebuilt so that it *iterates* in the given order (a
/// permutation of the sorted names). std's HashMap order depends on a per-map random seed, so fresh
/// maps are drawn until one iterates as requested; None if that did not happen within the cap.
pub fn with_identifier_order(rule: &Rule, perm: &[usize]) -> Option<Rule> {
    let mut names: Vec<&String> = rule.detection.identifiers.keys().collect();
    names.sort();
    if perm.len() != names.len() {
        return None;
    }
    let want: Vec<&String> = perm.iter().map(|i| names[*i]).collect();
    for _ in 0..20000 {
        let mut m: HashMap<String, Expression> = HashMap::new();
        for n in &names {
            m.insert((*n).clone(), rule.detection.identifiers[*n].clone());
        }
        if m.keys().collect::<Vec<_>>() == want {
            let mut r = rule.clone();
            r.detection.identifiers = m;
            return Some(r);
        }
    }
    None
}

/// Known finding support: a nested block whose only content is a user-written `all(k): [..]` has
/// the same tree shape as blocks merged by `shake` (`nested(f, all(group(|| ..)))`) and the solver
/// evaluates that shape on arrays member by member (each member satisfied by *some* element).
/// `lone_all_blocks` returns the container fields of such blocks in an unoptimised tree;
/// `without_lone_all_shortcut` returns the tree with those blocks wrapped so that the solver
/// evaluates them element by element (what the rule language says).
pub fn lone_all_blocks(e: &Expression, ids: &HashMap<String, Expression>) -> Vec<String> {
    use tau_engine::core::parser::{BoolSym, Match};
    fn walk(e: &Expression, out: &mut Vec<String>) {
        match e {
            Expression::Nested(f, inner) => {
                if let Expression::Match(Match::All, g) = &**inner {
                    if let Expression::BooleanGroup(BoolSym::Or, v) = &**g {
                        if v.len() >= 2 {
                            out.push(f.clone());
                        }
                    }
                }
                walk(inner, out);
            }
            Expression::BooleanGroup(_, v) => v.iter().for_each(|x| walk(x, out)),
            Expression::BooleanExpression(l, _, r) => {
                walk(l, out);
                walk(r, out);
            }
            Expression::Negate(x) | Expression::Match(_, x) => walk(x, out),
            _ => {}
        }
    }
    let mut out = vec![];
    walk(e, &mut out);
    let mut keys: Vec<&String> = ids.keys().collect();
    keys.sort();
    for k in keys {
        walk(&ids[k], &mut out);
    }
    out
}

pub fn without_lone_all_shortcut(e: &Expression) -> Expression {
    use tau_engine::core::parser::{BoolSym, Match};
    match e {
        Expression::Nested(f, inner) => {
            let body = without_lone_all_shortcut(inner);
            let lone = matches!(&body, Expression::Match(Match::All, g) if matches!(&**g, Expression::BooleanGroup(BoolSym::Or, v) if v.len() >= 2));
            if lone {
                Expression::Nested(f.clone(), Box::new(Expression::BooleanGroup(BoolSym::And, vec![body])))
            } else {
                Expression::Nested(f.clone(), Box::new(body))
            }
        }
        Expression::BooleanGroup(s, v) => Expression::BooleanGroup(s.clone(), v.iter().map(without_lone_all_shortcut).collect()),
        Expression::BooleanExpression(l, s, r) => Expression::BooleanExpression(Box::new(without_lone_all_shortcut(l)), s.clone(), Box::new(without_lone_all_shortcut(r))),
        Expression::Negate(x) => Expression::Negate(Box::new(without_lone_all_shortcut(x))),
        Expression::Match(m, x) => Expression::Match(m.clone(), Box::new(without_lone_all_shortcut(x))),
        other => other.clone(),
    }
}

pub const LONE_ALL_SIGNATURE: &str = "all()-alone-in-a-nested-block-is-satisfied-by-different-array-elements";

/// three-valued result of the rule with every lone all() block evaluated element by element
pub fn val3_without_lone_all_shortcut(e: &Expression, ids: &HashMap<String, Expression>, doc: &dyn Document) -> Result<i8, String> {
    let e2 = without_lone_all_shortcut(e);
    let ids2: HashMap<String, Expression> = ids.iter().map(|(k, v)| (k.clone(), without_lone_all_shortcut(v))).collect();
    catch(|| tau_engine::verif::solve3(&e2, &ids2, doc))
}

pub fn canon_ids(ids: &HashMap<String, Expression>) -> String {
    let mut v: Vec<String> = ids.iter().map(|(k, e)| format!("{}={}", k, e)).collect();
    v.sort();
    v.join(";")
}

/// Canonical printable state of a rule's detection.
pub fn canon(rule: &Rule) -> String {
    format!(
        "{} | {}",
        rule.detection.expression,
        canon_ids(&rule.detection.identifiers)
    )
}

pub fn matches(rule: &Rule, doc: &dyn Document) -> Result<bool, String> {
    catch(|| rule.matches(doc))
}

/// Three-valued result of the whole condition: 1 true, 0 false, -1 missing.
pub fn val3(rule: &Rule, doc: &dyn Document) -> Result<i8, String> {
    catch(|| {
        tau_engine::verif::solve3(
            &rule.detection.expression,
            &rule.detection.identifiers,
            doc,
        )
    })
}

pub fn solve3(
    e: &Expression,
    ids: &HashMap<String, Expression>,
    doc: &dyn Document,
) -> Result<i8, String> {
    catch(|| tau_engine::verif::solve3(e, ids, doc))
}

pub fn v3name(v: i8) -> &'static str {
    match v {
        1 => "T",
        0 => "F",
        -1 => "M",
        _ => "P",
    }
}

// ---------------------------------------------------------------------------------------------
// stateless explorer over choice points (prefix replay, choice 0 after the prefix)

pub struct Explored {
    pub leaves: u64,
    pub capped: bool,
    pub max_points: usize,
}

/// `run(prefix)` must replay `prefix` and then take choice 0 everywhere, returning the trace.
/// Every complete choice sequence (leaf) is visited exactly once, in depth-first order, identity
/// first. `cap` bounds the number of leaves; when hit, `capped` is set (not exhaustive).
pub fn explore(cap: u64, run: impl FnMut(&[u32]) -> Vec<(u32, u32)>) -> Explored {
    explore_bounded(u32::MAX, cap, run)
}

/// As `explore`, but only choice sequences with at most `bound` deviations (non-zero choices).
pub fn explore_bounded(
    bound: u32,
    cap: u64,
    mut run: impl FnMut(&[u32]) -> Vec<(u32, u32)>,
) -> Explored {
    let mut out = Explored {
        leaves: 0,
        capped: false,
        max_points: 0,
    };
    let mut stack: Vec<Vec<u32>> = vec![vec![]];
    while let Some(prefix) = stack.pop() {
        if out.leaves >= cap {
            out.capped = true;
            break;
        }
        let trace = run(&prefix);
        out.leaves += 1;
        out.max_points = out.max_points.max(trace.len());
        if trace.len() < prefix.len()
            || trace[..prefix.len()]
                .iter()
                .zip(prefix.iter())
                .any(|((_, c), p)| c != p)
        {
            eprintln!(
                "machinery error: explorer divergence: prefix {:?} trace {:?}",
                prefix, trace
            );
            std::process::exit(2);
        }
        // children: deviate at one later point; pushed in reverse so DFS visits low alts first
        let mut kids = vec![];
        let used = prefix.iter().filter(|c| **c != 0).count() as u32;
        if used >= bound {
            continue;
        }
        for i in prefix.len()..trace.len() {
            for alt in 1..trace[i].0 {
                let mut p: Vec<u32> = trace[..i].iter().map(|(_, c)| *c).collect();
                p.push(alt);
                kids.push(p);
            }
        }
        for k in kids.into_iter().rev() {
            stack.push(k);
        }
    }
    out
}
