mod c01;
mod c02;
mod c03;
mod c04;
mod c05;
mod c06;
mod c07;
mod c08;
mod c09;
mod c10;
mod c11;
mod c12;
mod c13;
mod c14;
mod c15;
mod c16;
mod c17;
mod eng;
mod gen;
mod mdoc;
mod optrep;
mod refint;
mod replay;
mod report;
mod rx;
mod wide;

use report::Tier;

fn main() {
    let args: Vec<String> = std::env::args().collect();
    if args.len() < 2 {
        eprintln!("usage: tv <ID> <quick|thorough> | tv --replay <file> | tv universe <level>");
        std::process::exit(2);
    }
    report::quiet_panics();
    if args[1] == "--replay" {
        std::process::exit(replay::run(args.get(2).map(|s| s.as_str()).unwrap_or("")));
    }
    if args[1] == "--c04-depth" {
        std::process::exit(c04::depth_child(args.get(2).map(|s| s.as_str()).unwrap_or("")));
    }
    if args[1] == "--c12-digest" {
        std::process::exit(c12::digest_child(args.get(2).and_then(|s| s.parse().ok()).unwrap_or(0)));
    }
    if args[1] == "--c15-table" {
        std::process::exit(c15::table_child(args.get(2).map(|s| s == "thorough").unwrap_or(false)));
    }
    if args[1] == "--c12-pair" {
        let i = args.get(2).and_then(|s| s.parse().ok()).unwrap_or(0);
        let j = args.get(3).and_then(|s| s.parse().ok()).unwrap_or(0);
        std::process::exit(c12::pair_child(i, j));
    }
    if args[1] == "dbg-wide" {
        let t = std::time::Instant::now();
        let st = wide::run(args.get(2).map(|s| s == "thorough").unwrap_or(false), false);
        println!("wide: evaluations={} transitions={} nontrivial={} violations={} {:?} in {:.1}s", st.evaluations, st.transitions, st.nontrivial, st.violations.len(), st.counters, t.elapsed().as_secs_f64());
        for v in &st.violations {
            println!("  {} | {}", v.signature, v.witness.chars().take(300).collect::<String>());
        }
        return;
    }
    if args[1] == "dbg-order" {
        // optimise the rules given as YAML files in order, print verdicts on the document f = argv[2]
        let d = mdoc::MObj::new().with("f", mdoc::s(&args[2]));
        for p in &args[3..] {
            let y = std::fs::read_to_string(p).unwrap();
            let r = eng::load(&y).unwrap();
            let o = r.clone().optimise(eng::opts(0b0100));
            println!("{} -> {} : {:?}", p, eng::canon(&o), eng::matches(&o, &d));
        }
        return;
    }
    if args[1] == "universe" {
        let level: u8 = args.get(2).and_then(|x| x.parse().ok()).unwrap_or(0);
        let t = std::time::Instant::now();
        let fams: Vec<(&str, Vec<gen::RuleSpec>)> = vec![
            ("single", gen::family_single(level)),
            ("bodies", gen::family_bodies(level)),
            ("conditions", gen::family_conditions(level)),
            ("regex", gen::family_regex(if level == 0 { 3 } else { 4 })),
            ("matrix", gen::family_matrix(level)),
        ];
        for (n, f) in &fams {
            let mut ok = 0;
            let mut pan = 0;
            let mut docs = 0usize;
            for s in f {
                match eng::load(&s.yaml()) {
                    Ok(_) => {
                        ok += 1;
                        docs += gen::docs_for(s, level, 600).len();
                    }
                    Err(eng::LoadErr::Panic(_)) => pan += 1,
                    _ => {}
                }
            }
            println!("{}: specs={} load={} panic={} docs={}", n, f.len(), ok, pan, docs);
        }
        println!("t={:?}", t.elapsed());
        return;
    }
    let tier = match args.get(2).map(|s| s.as_str()) {
        Some("thorough") => Tier::Thorough,
        _ => Tier::Quick,
    };
    let code = match args[1].as_str() {
        "C01" => c01::run(tier),
        "C02" => c02::run(tier),
        "C03" => c03::run(tier),
        "C04" => c04::run(tier),
        "C05" => c05::run(tier),
        "C06" => c06::run(tier),
        "C07" => c07::run(tier),
        "C08" => c08::run(tier),
        "C09" => c09::run(tier),
        "C10" => c10::run(tier),
        "C11" => c11::run(tier),
        "C12" => c12::run(tier),
        "C13" => c13::run(tier),
        "C14" => c14::run(tier),
        "C15" => c15::run(tier),
        "C16" => c16::run(tier),
        "C17" => c17::run(tier),
        x => {
            eprintln!("unknown check {}", x);
            2
        }
    };
    std::process::exit(code);
}
