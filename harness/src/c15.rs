//! C15: the ignore_case build equals the default build with every pattern i-prefixed.
//! The same enumeration is compiled into two binaries; the default one compares the tables.

use serde_json::json;

use crate::eng;
use crate::mdoc::{arr, s, MObj, MVal};
use crate::report::{Report, Tier, Violation};

fn strings(alpha: &[&str], maxlen: usize) -> Vec<String> {
    let mut out = vec![String::new()];
    let mut cur = vec![String::new()];
    for _ in 0..maxlen {
        let mut next = vec![];
        for c in &cur {
            for a in alpha {
                next.push(format!("{}{}", c, a));
            }
        }
        out.extend(next.iter().cloned());
        cur = next;
    }
    out
}

fn q(x: &str) -> String {
    serde_json::to_string(x).unwrap()
}

/// (description, yaml as written, yaml with `i` prepended to every string pattern)
pub fn rules(th: bool) -> Vec<(String, String, String)> {
    let pats = {
        let mut p = strings(&["a", "A", "i", "I", "*", "?"], if th { 4 } else { 3 });
        for x in ["'a'", "\"A\"", "'*a'", "b", "ab", "aB*", "*Ab", "?^a", "?A$", "?(a|B)", ">1", "=1", ">=1.5", "i>1", "?.*a", "?a.*", "?.*A.*", "?.*", "?^\\S+$", "?\\D", "?a\\W", "?\\Bb", "?^\\s*$", "?(?P<x>a)b", "?[^\\W]", "?\\x41", "?\\pL", "k", "*k", "k*", "*k*", "K", "s*", "*ss*", "ak", "1*", "*1", "1", "*1*", "-", "12*"] {
            p.push(x.to_string());
        }
        p
    };
    let wrap = |body: &str| format!("detection:\n  A: {}\n  condition: A\ntrue_positives: []\ntrue_negatives: []\n", body);
    let mut out = vec![];
    for p in &pats {
        for k in ["f", "str(f)", "not(f)"] {
            out.push((
                format!("{}: {}", k, p),
                wrap(&format!("{{{}: {}}}", q(k), q(p))),
                wrap(&format!("{{{}: {}}}", q(k), q(&format!("i{}", p)))),
            ));
        }
    }
    // lists
    let lp: Vec<&String> = pats.iter().filter(|p| p.chars().count() <= 2).collect();
    for (i, a) in lp.iter().enumerate() {
        for b in lp.iter().skip(i) {
            for k in ["f", "all(f)", "of(f, 2)", "str(f)"] {
                if k != "f" && (i % 3 != 0) {
                    continue;
                }
                out.push((
                    format!("{}: [{}, {}]", k, a, b),
                    wrap(&format!("{{{}: [{}, {}]}}", q(k), q(a), q(b))),
                    wrap(&format!("{{{}: [{}, {}]}}", q(k), q(&format!("i{}", a)), q(&format!("i{}", b)))),
                ));
            }
        }
    }
    let four = [["a*", "*A", "?i", "I"], ["ia", "*i*", "?^A", "b"], ["A", "a", "i*", "*I"], ["?a", "?B", "ab", "*b*"]];
    for m in four {
        for k in ["f", "all(f)", "of(f, 2)", "of(f, 0)", "str(f)", "not(f)"] {
            let plain: Vec<String> = m.iter().map(|x| q(x)).collect();
            let pref: Vec<String> = m.iter().map(|x| q(&format!("i{}", x))).collect();
            out.push((
                format!("{}: {:?}", k, m),
                wrap(&format!("{{{}: [{}]}}", q(k), plain.join(", "))),
                wrap(&format!("{{{}: [{}]}}", q(k), pref.join(", "))),
            ));
        }
    }
    // YAML booleans / numbers next to string members (they cannot carry an i prefix and stay
    // case-sensitive literals in both builds)
    for (plain, pref) in [
        ("[true, false, \"enabled\"]", "[true, false, \"ienabled\"]"),
        ("[true]", "[true]"),
        ("[1, 1.5, \"a*\"]", "[1, 1.5, \"ia*\"]"),
        ("[.inf, \"A\"]", "[.inf, \"iA\"]"),
        ("[null, \"a\"]", "[null, \"ia\"]"),
    ] {
        for k in ["str(f)", "f", "not(f)"] {
            out.push((
                format!("{}: {}", k, plain),
                wrap(&format!("{{{}: {}}}", q(k), plain)),
                wrap(&format!("{{{}: {}}}", q(k), pref)),
            ));
        }
    }
    for (plain, pref) in [("true", "true"), ("1", "1"), ("1.5", "1.5")] {
        out.push((
            format!("str(f): {}", plain),
            wrap(&format!("{{\"str(f)\": {}}}", plain)),
            wrap(&format!("{{\"str(f)\": {}}}", pref)),
        ));
    }
    // nested and sequences
    for p in ["a", "A*", "*i", "?a", "i"] {
        out.push((
            format!("n: {{x: {}}}", p),
            wrap(&format!("{{n: {{x: {}}}}}", q(p))),
            wrap(&format!("{{n: {{x: {}}}}}", q(&format!("i{}", p)))),
        ));
        out.push((
            format!("[{{f: {}}}, {{g: {}}}]", p, p),
            wrap(&format!("[{{f: {}}}, {{g: {}}}]", q(p), q(p))),
            wrap(&format!("[{{f: {}}}, {{g: {}}}]", q(&format!("i{}", p)), q(&format!("i{}", p)))),
        ));
    }
    // several rows / identifiers on the SAME field: the optimiser merges their searches into one
    // automaton or regex set, which has to keep the case mode each member was loaded with
    {
        let sp = ["a*", "*a", "A*", "*B", "ab*", "*Ab", "a", "*a*", "?^a", "aB", "*b*", "i*"];
        let ip = |p: &str| q(&format!("i{}", p));
        for (i, a) in sp.iter().enumerate() {
            for (j, b) in sp.iter().enumerate() {
                if j < i {
                    continue;
                }
                out.push((
                    format!("[{{f: {}}}, {{f: {}}}]", a, b),
                    wrap(&format!("[{{f: {}}}, {{f: {}}}]", q(a), q(b))),
                    wrap(&format!("[{{f: {}}}, {{f: {}}}]", ip(a), ip(b))),
                ));
                out.push((
                    format!("[{{f: {}, g: ab}}, {{f: {}}}, {{g: {}}}]", a, b, a),
                    wrap(&format!("[{{f: {}, g: ab}}, {{f: {}}}, {{g: {}}}]", q(a), q(b), q(a))),
                    wrap(&format!("[{{f: {}, g: iab}}, {{f: {}}}, {{g: {}}}]", ip(a), ip(b), ip(a))),
                ));
                let c = sp[(i + j + 1) % sp.len()];
                out.push((
                    format!("[{{f: {}}}, {{f: {}}}, {{f: {}}}]", a, b, c),
                    wrap(&format!("[{{f: {}}}, {{f: {}}}, {{f: {}}}]", q(a), q(b), q(c))),
                    wrap(&format!("[{{f: {}}}, {{f: {}}}, {{f: {}}}]", ip(a), ip(b), ip(c))),
                ));
                let three = |x: String, y: String, z: String, cond: &str| {
                    format!("detection:\n  A: {{f: {}}}\n  B: {{f: {}}}\n  C: {{f: {}}}\n  condition: {}\ntrue_positives: []\ntrue_negatives: []\n", x, y, z, cond)
                };
                for cond in ["A or B or C", "not (A or B or C)", "A and (B or C)"] {
                    out.push((format!("A: {{f: {}}} B: {{f: {}}} C: {{f: {}}} ; {}", a, b, c, cond), three(q(a), q(b), q(c), cond), three(ip(a), ip(b), ip(c), cond)));
                }
            }
        }
    }
    // comparisons written in the condition: they have no string pattern, so nothing can carry an
    // i prefix and the two builds must treat them identically (field-to-field str() equality is
    // exact in both)
    for cond in [
        "str(f) == str(g)",
        "A and str(f) == str(g)",
        "A or str(f) == str(g)",
        "not A and str(f) == str(g)",
        "str(g) == str(f)",
        "int(f) == int(g)",
        "flt(f) >= flt(g)",
        "f == g",
        "A and f == g",
    ] {
        for p in ["a*", "AB", "?^a"] {
            let w = |pat: &str| {
                format!(
                    "detection:\n  A: {{f: {}}}\n  condition: {}\ntrue_positives: []\ntrue_negatives: []\n",
                    q(pat),
                    q(cond)
                )
            };
            out.push((format!("A: {{f: {}}} ; {}", p, cond), w(p), w(&format!("i{}", p))));
        }
    }
    out
}

pub fn docs() -> Vec<MObj> {
    let mut out = vec![MObj::new()];
    for t in strings(&["a", "A", "i", "I", "b"], 3) {
        out.push(MObj::new().with("f", s(&t)));
    }
    for t in ["\u{130}", "\u{130}a", "a\u{130}", "\u{212a}", "a\u{212a}", "\u{212a}a", "\u{17f}", "É", "é", "aÉ", "ǅ", "ß", "ẞ"] {
        out.push(MObj::new().with("f", s(t)));
    }
    for t in [" ", "a b", "a ", "1", "a1", "A-", "-b", "ab"] {
        out.push(MObj::new().with("f", s(t)));
    }
    for t in ["TRUE", "True", "ENABLED", "Enabled", "INF", "inf", "1.5", "NAN"] {
        out.push(MObj::new().with("f", s(t)));
    }
    for t in ["ab", "AB", "aB", "Ab", "ba", "iA", "Ia", "1", "2", "true"] {
        out.push(MObj::new().with("f", s(t)).with("g", s(t)));
        out.push(MObj::new().with("n", crate::mdoc::obj(vec![("x", s(t))])));
    }
    for (a, b) in [("ab", "AB"), ("Ab", "ab"), ("AB", "AB"), ("a", "b"), ("A", "a"), ("true", "TRUE"), ("1", "1")] {
        out.push(MObj::new().with("f", s(a)).with("g", s(b)));
    }
    out.push(MObj::new().with("f", s("TRUE")).with("g", MVal::Bool(true)));
    out.push(MObj::new().with("f", s("true")).with("g", MVal::Bool(true)));
    out.push(MObj::new().with("f", MVal::Int(1)).with("g", s("1")));
    // field names are never case-folded, in either build
    for (k, v) in [("F", "a"), ("F", "A"), ("G", "x")] {
        out.push(MObj::new().with(k, s(v)));
    }
    out.push(MObj::new().with("N", crate::mdoc::obj(vec![("x", s("a"))])));
    out.push(MObj::new().with("n", crate::mdoc::obj(vec![("X", s("a"))])));
    out.push(MObj::new().with("f", MVal::Int(1)));
    out.push(MObj::new().with("f", MVal::Int(2)));
    out.push(MObj::new().with("f", MVal::Float(1.5)));
    out.push(MObj::new().with("f", MVal::Bool(true)));
    out.push(MObj::new().with("f", arr(vec![s("A"), s("i")])));
    // arrays whose elements satisfy different list members (a merged search is counted per
    // element, separate searches per member)
    for (a, b) in [("1x", "yA"), ("1a", "A1"), ("a", "A"), ("1", "a"), ("i1", "I"), ("12x", "yAB"), ("-", "a")] {
        out.push(MObj::new().with("f", arr(vec![s(a), s(b)])));
        out.push(MObj::new().with("f", arr(vec![s(b), s(a), MVal::Int(1)])));
    }
    out
}

/// one line per rule: L/E/P + verdict bits; the ignore_case build evaluates the rule as written,
/// the default build the i-prefixed text
pub fn table(th: bool) -> Vec<String> {
    let ds = docs();
    rules(th)
        .iter()
        .map(|(_, plain, prefixed)| {
            let text = if cfg!(feature = "ic") { plain } else { prefixed };
            if !cfg!(feature = "ic") {
                // handle the spelling without prefixes first, as a user migrating rules would
                if let Ok(r) = eng::load(plain) {
                    let _ = eng::optimise_with(&r, eng::SW_DEFAULT, &[]);
                }
            }
            match eng::load(text) {
                Ok(r) => {
                    let bits: String = ds
                        .iter()
                        .map(|d| match eng::val3(&r, d) {
                            Ok(1) => 'T',
                            Ok(0) => 'F',
                            Ok(_) => 'M',
                            Err(_) => 'P',
                        })
                        .collect();
                    // verdicts of the optimised rule (truth only)
                    let obits: String = match eng::optimise_with(&r, eng::SW_DEFAULT, &[]) {
                        Ok((o, _)) => ds
                            .iter()
                            .map(|d| match eng::matches(&o, d) {
                                Ok(true) => 't',
                                Ok(false) => 'f',
                                Err(_) => 'p',
                            })
                            .collect(),
                        Err(_) => "p".into(),
                    };
                    format!("L{}{}", bits, obits)
                }
                Err(eng::LoadErr::Err(_)) => "E".to_string(),
                Err(eng::LoadErr::Panic(_)) => "P".to_string(),
            }
        })
        .collect()
}

pub fn table_child(th: bool) -> i32 {
    println!("build ignore_case={}", cfg!(feature = "ic"));
    for l in table(th) {
        println!("{}", l);
    }
    0
}

pub fn run(tier: Tier) -> i32 {
    let mut rep = Report::new("C15", tier);
    let th = tier.thorough();
    if cfg!(feature = "ic") {
        eprintln!("machinery error: the comparing side must be the default build");
        return 2;
    }
    let mine = table(th);
    let exe = "/verif/harness/target-ic/release/tv";
    let out = std::process::Command::new(exe)
        .arg("--c15-table")
        .arg(tier.name())
        .output();
    let theirs: Vec<String> = match out {
        Ok(o) if o.status.success() => {
            let t = String::from_utf8_lossy(&o.stdout).to_string();
            let mut lines = t.lines();
            match lines.next() {
                Some("build ignore_case=true") => {}
                other => {
                    eprintln!("machinery error: {} is not an ignore_case build ({:?})", exe, other);
                    return 2;
                }
            }
            lines.map(|l| l.to_string()).collect()
        }
        other => {
            eprintln!("machinery error: cannot run the ignore_case build {}: {:?}", exe, other.map(|o| o.status));
            return 2;
        }
    };
    let rs = rules(th);
    let ds = docs();
    if theirs.len() != mine.len() || mine.len() != rs.len() {
        eprintln!("machinery error: table sizes differ {} {} {}", theirs.len(), mine.len(), rs.len());
        return 2;
    }
    let mut loaded = 0u64;
    let mut disc = 0u64;
    for (i, (desc, plain, prefixed)) in rs.iter().enumerate() {
        rep.stats.states += 1;
        rep.stats.transitions += 2;
        let (a, b) = (&theirs[i], &mine[i]);
        if a.starts_with('L') {
            loaded += 1;
            if a.contains('T') && (a.contains('F') || a.contains('M')) {
                disc += 1;
            }
            rep.stats.evaluations += ds.len() as u64;
            rep.stats.traces += ds.len() as u64;
        } else {
            rep.stats.evaluations += 1;
            rep.stats.traces += 1;
        }
        if a != b {
            let kind = if a.as_bytes()[0] != b.as_bytes()[0] {
                format!("load-outcome-differs:ignore_case={},default+i={}", &a[..1], &b[..1])
            } else {
                let k = a.chars().zip(b.chars()).position(|(x, y)| x != y).unwrap_or(0);
                let d = if k >= 1 { ds[(k - 1) % ds.len()].show() } else { "?".into() };
                format!("verdict-differs:ignore_case={},default+i={} on {}", a.chars().nth(k).unwrap_or('?'), b.chars().nth(k).unwrap_or('?'), d)
            };
            // signature: first word of the kind + key modifier of the rule
            let key = desc.split(':').next().unwrap_or("").to_string();
            rep.stats.push_violation(Violation {
                signature: format!("{}:{}", kind.split(':').next().unwrap_or(""), key),
                witness: format!("{} ; rule as written {} ; i-prefixed {}", kind, desc, crate::c01::one_line(prefixed)),
                replay: json!({"kind":"two-builds","rule_yaml":plain,"prefixed_rule_yaml":prefixed,"ignore_case_row":a,"default_row":b}),
            });
        }
    }
    rep.stats.nontrivial = disc;
    rep.stats.count("rules", rs.len() as u64);
    rep.stats.count("rules_loaded_in_ignore_case_build", loaded);
    rep.stats.count("documents", ds.len() as u64);
    rep.stats.sample(json!({"rule":"f: 'ia'","ignore_case_build":"exact 'ia', case-insensitive","default_build":"f: 'iia'"}));
    rep.stats.sample(json!({"rule":"all(f): ['a*', '*A', '?i', 'I']","documents":ds.len()}));
    rep.rule = "rules: every pattern up to the length bound over {a, A, i, I, *, ?} (so that the prefix letter itself is exercised) plus quoted, regex and numeric forms, under k / str(k) / not(k); all pairs of the short patterns and four mixed 4-member lists under k / all(k) / of(k,n) / str(k) / not(k); nested and sequence forms; conditions with field-to-field cast comparisons (no pattern to prefix); x ASCII documents (every string up to length 3 over {a,A,i,I,b}, numbers, booleans, arrays, nested). Two real builds of the same enumeration: the ignore_case build evaluates the rule as written, the default build evaluates it with i prepended to every string pattern; tables of load outcomes and three-valued results must be identical. non-trivial = rule is discriminating in the ignore_case build".into();
    rep.assumptions = vec!["both binaries are rebuilt from /repo's working tree by ./check C15".into()];
    rep.finish()
}
