//! C01: optimisation never changes a verdict (all switch sets x all hash orders x all documents).

use std::collections::HashMap;

use rayon::prelude::*;
use serde_json::json;

use crate::eng::{self, Sw};
use crate::gen::{self, RuleSpec};
use crate::mdoc::MObj;
use crate::optrep::{self, Det, Staged};
use crate::report::{Report, Stats, Tier, Violation};

pub struct Variant {
    pub sw: Sw,
    pub choices: Vec<u32>,
    pub staged: Staged,
}

pub struct Explored {
    pub base: Det,
    /// distinct canonical optimised detections with the first (sw, order) that produced them
    pub variants: Vec<Variant>,
    /// per switch set: number of hash orders explored and distinct canonical outputs
    pub per_sw: Vec<(Sw, u64, usize)>,
    pub optimise_calls: u64,
    pub capped: bool,
    pub panics: Vec<(Sw, Vec<u32>, usize, String)>,
    pub replica_mismatch: Vec<(Sw, String, String)>,
}

/// Explores every switch set and every hash order of the optimiser for one loaded rule.
pub fn explore_rule(rule: &tau_engine::Rule, order_cap: u64) -> Explored {
    let base = Det::of_rule(rule);
    let mut seen: HashMap<String, usize> = HashMap::new();
    let mut out = Explored {
        base: base.clone(),
        variants: vec![],
        per_sw: vec![],
        optimise_calls: 0,
        capped: false,
        panics: vec![],
        replica_mismatch: vec![],
    };
    for sw in 0u8..16 {
        let mut distinct_here: Vec<String> = vec![];
        let ex = eng::explore(order_cap, |prefix| {
            let st = optrep::optimise_replica(&base, sw, prefix);
            out.optimise_calls += 1;
            let trace = st.trace.clone();
            if let Some((pass, msg)) = &st.panic {
                if out.panics.len() < 4 {
                    out.panics.push((sw, prefix.to_vec(), *pass, msg.clone()));
                }
                return trace;
            }
            let c = st.stages.last().unwrap().1.canon();
            if !distinct_here.contains(&c) {
                distinct_here.push(c.clone());
            }
            if !seen.contains_key(&c) {
                seen.insert(c, out.variants.len());
                let choices: Vec<u32> = trace.iter().map(|(_, c)| *c).collect();
                out.variants.push(Variant {
                    sw,
                    choices,
                    staged: st,
                });
            }
            trace
        });
        if ex.capped {
            out.capped = true;
        }
        out.per_sw.push((sw, ex.leaves, distinct_here.len()));
        // conformance of the replica with Rule::optimise (identity order)
        match eng::optimise_with(rule, sw, &[]) {
            Ok((r, _)) => {
                let real = eng::canon(&r);
                let st = optrep::optimise_replica(&base, sw, &[]);
                if st.panic.is_none() {
                    let rep = st.stages.last().unwrap().1.canon();
                    if real != rep {
                        out.replica_mismatch.push((sw, real, rep));
                    }
                } else {
                    out.replica_mismatch
                        .push((sw, real, "replica panicked".into()));
                }
            }
            Err(p) => {
                let st = optrep::optimise_replica(&base, sw, &[]);
                if st.panic.is_none() {
                    out.replica_mismatch
                        .push((sw, format!("Rule::optimise panicked: {}", p), "ok".into()));
                }
            }
        }
        out.optimise_calls += 2;
    }
    out
}

pub fn replay_json(yaml: &str, sw: Sw, choices: &[u32], doc: Option<&MObj>) -> serde_json::Value {
    json!({
        "kind": "optimise",
        "rule_yaml": yaml,
        "switches": eng::sw_name(sw),
        "sw_bits": sw,
        "hash_order_choices": choices,
        "document": doc.map(crate::report::mobj_to_json),
    })
}

pub fn check_spec(spec: &RuleSpec, level: u8, doc_cap: usize, order_cap: u64) -> Stats {
    let mut st = Stats::default();
    let yaml = spec.yaml();
    let rule = match eng::load(&yaml) {
        Ok(r) => r,
        Err(_) => {
            st.count("rules_rejected_by_loader", 1);
            return st;
        }
    };
    st.count("rules_loaded", 1);
    let docs = gen::docs_for(spec, level, doc_cap);
    let ex = explore_rule(&rule, order_cap);
    st.transitions += ex.optimise_calls;
    if ex.capped {
        st.count("rules_with_order_cap_hit", 1);
    }
    for (sw, orders, distinct) in &ex.per_sw {
        st.count("hash_orders_explored", *orders);
        if *distinct > 1 {
            st.count("switchsets_with_order_dependent_output", 1);
        }
        let _ = sw;
    }
    for (sw, choices, pass, msg) in &ex.panics {
        st.push_violation(Violation {
            signature: format!("panic-in-optimise:{}", optrep::PASSES[*pass]),
            witness: format!(
                "optimise({}) panics: {} on rule {}",
                eng::sw_name(*sw),
                msg,
                one_line(&yaml)
            ),
            replay: replay_json(&yaml, *sw, choices, None),
        });
    }
    for (sw, real, rep) in &ex.replica_mismatch {
        st.push_violation(Violation {
            signature: "replica-differs-from-Rule::optimise".into(),
            witness: format!(
                "sw={} real={} replica={} rule {}",
                eng::sw_name(*sw),
                real,
                rep,
                one_line(&yaml)
            ),
            replay: replay_json(&yaml, *sw, &[], None),
        });
    }
    // base verdicts (three valued) - through the rule itself so that Rule::matches is the subject
    let mut base3: Vec<i8> = Vec::with_capacity(docs.len());
    for d in &docs {
        let m = eng::matches(&rule, d);
        let v = ex.base.val3(d).unwrap_or(2);
        st.transitions += 2;
        // the other public entry points onto the same solver must agree with Rule::matches
        let via_core = crate::report::catch(|| tau_engine::core::solve_expression(&rule.detection.expression, &rule.detection.identifiers, d));
        let via_solve = crate::report::catch(|| tau_engine::solve(&rule.detection, d));
        st.transitions += 2;
        if via_core != m || via_solve != m {
            st.push_violation(Violation {
                signature: "public-solve-entry-points-disagree-with-Rule::matches".into(),
                witness: format!("matches={:?} core::solve_expression={:?} solve={:?} ; rule {} doc {}", m, via_core, via_solve, one_line(&yaml), d.show()),
                replay: replay_json(&yaml, 0, &[], Some(d)),
            });
        }
        match m {
            Ok(b) => {
                if b != (v == 1) {
                    st.push_violation(Violation {
                        signature: "matches-disagrees-with-solve3".into(),
                        witness: format!("rule {} doc {}", one_line(&yaml), d.show()),
                        replay: replay_json(&yaml, 0, &[], Some(d)),
                    });
                }
            }
            Err(_) => {
                // an unoptimised rule that panics is C03's business; the differential oracle
                // treats the panic as a value of its own
            }
        }
        base3.push(v);
    }
    let discriminating = base3.iter().any(|v| *v == 1) && base3.iter().any(|v| *v != 1);
    let base_canon = ex.base.canon();
    let mut changed = false;
    st.states += 1;
    for var in &ex.variants {
        let d = &var.staged.stages.last().unwrap().1;
        if d.canon() != base_canon {
            changed = true;
        }
        st.states += 1;
        for (i, doc) in docs.iter().enumerate() {
            let v = d.val3(doc).unwrap_or(2);
            st.transitions += 1;
            st.evaluations += 1;
            st.traces += 1;
            let want = base3[i] == 1;
            let got = v == 1;
            // core::solve is the identifier-free entry point onto the same solver
            if d.ids.is_empty() && v != 2 && i % 4 == 0 {
                let cs = crate::report::catch(|| tau_engine::core::solve(&d.expr, doc));
                st.transitions += 1;
                if cs != Ok(got) {
                    st.push_violation(Violation {
                        signature: "core::solve-disagrees-with-the-solver".into(),
                        witness: format!("core::solve={:?} solve3={} ; rule {} doc {}", cs, eng::v3name(v), one_line(&yaml), doc.show()),
                        replay: replay_json(&yaml, var.sw, &var.choices, Some(doc)),
                    });
                }
            }
            if v == 2 && base3[i] != 2 {
                st.push_violation(Violation {
                    signature: format!("panic-in-matches-after:{}", last_pass(&var.staged)),
                    witness: format!(
                        "optimise({}) order {:?} then matches panics; rule {} doc {}",
                        eng::sw_name(var.sw),
                        var.choices,
                        one_line(&yaml),
                        doc.show()
                    ),
                    replay: replay_json(&yaml, var.sw, &var.choices, Some(doc)),
                });
            } else if want != got && base3[i] != 2 {
                // recorded finding: the *unoptimised* verdict is the wrong one (a lone all() block
                // counted across array elements); evaluated element by element it agrees with
                // the optimised rule
                let lone = eng::lone_all_blocks(&ex.base.expr, &ex.base.ids);
                let explained = lone.iter().any(|f| matches!(crate::refint::lookup(doc, f), Some(crate::mdoc::MVal::Arr(_))))
                    && eng::val3_without_lone_all_shortcut(&ex.base.expr, &ex.base.ids, doc).map(|c| (c == 1) == got).unwrap_or(false);
                let sig = if explained { eng::LONE_ALL_SIGNATURE.to_string() } else { optrep::localise(&var.staged, doc) };
                st.push_violation(Violation {
                    signature: sig,
                    witness: format!(
                        "unoptimised={} optimised({}, order {:?})={} rule {} doc {}",
                        eng::v3name(base3[i]),
                        eng::sw_name(var.sw),
                        var.choices,
                        eng::v3name(v),
                        one_line(&yaml),
                        doc.show()
                    ),
                    replay: replay_json(&yaml, var.sw, &var.choices, Some(doc)),
                });
            }
        }
    }
    if discriminating && changed {
        st.nontrivial += 1;
    }
    if st.samples.is_empty() && changed && discriminating {
        st.sample(json!({
            "rule": one_line(&yaml),
            "distinct_optimised_trees": ex.variants.len(),
            "documents": docs.len(),
            "example_tree": ex.variants.last().map(|v| v.staged.stages.last().unwrap().1.canon()),
        }));
    }
    st
}

/// Passes applied by hand through `core::optimiser` in an order `Rule::optimise` never uses. Only
/// differences that are *specific to the order* are reported: documents on which the standard
/// order of the same set of passes already disagrees with the unoptimised rule belong to the
/// main exploration above (and to the recorded findings).
pub fn check_pass_orders(spec: &RuleSpec, level: u8, doc_cap: usize) -> Stats {
    let mut st = Stats::default();
    let yaml = spec.yaml();
    let rule = match eng::load(&yaml) {
        Ok(r) => r,
        Err(_) => return st,
    };
    let base = Det::of_rule(&rule);
    let docs = gen::docs_for(spec, level, doc_cap);
    let base3: Vec<i8> = docs.iter().map(|d| base.val3(d).unwrap_or(2)).collect();
    // every ordering of every subset of the four passes (each pass at most once)
    let mut seqs: Vec<Vec<usize>> = vec![];
    fn rec(cur: &mut Vec<usize>, out: &mut Vec<Vec<usize>>) {
        if !cur.is_empty() {
            out.push(cur.clone());
        }
        for p in 0..4 {
            if !cur.contains(&p) {
                cur.push(p);
                rec(cur, out);
                cur.pop();
            }
        }
    }
    rec(&mut vec![], &mut seqs);
    let mut std_ok: HashMap<u8, Vec<bool>> = HashMap::new();
    for seq in &seqs {
        let standard = seq.windows(2).all(|w| w[0] < w[1]);
        let set: u8 = seq.iter().fold(0, |a, p| a | (1 << p));
        // coalesce anywhere but first optimises identifiers on their own before they are inlined
        // under their quantifiers - the root cause of a recorded finding, in every order
        if standard || seq.iter().position(|p| *p == 0).map(|i| i != 0).unwrap_or(false) {
            continue;
        }
        tau_engine::verif::set_script(vec![]);
        let mut cur = base.clone();
        let mut panicked = None;
        for p in seq {
            let c2 = cur.clone();
            let pp = *p;
            match crate::report::catch(move || optrep::apply_pass(c2, pp)) {
                Ok(d) => cur = d,
                Err(m) => {
                    panicked = Some(m);
                    break;
                }
            }
        }
        let _ = tau_engine::verif::take_trace();
        st.states += 1;
        st.transitions += seq.len() as u64;
        let names: Vec<&str> = seq.iter().map(|p| optrep::PASSES[*p]).collect();
        if let Some(m) = panicked {
            st.push_violation(Violation {
                signature: format!("pass-order:panic:{}", m.chars().take(40).collect::<String>()),
                witness: format!("passes {:?} applied by hand panic: {} ; rule {}", names, m, one_line(&yaml)),
                replay: json!({"kind":"pass-order","rule_yaml":yaml,"passes":seq}),
            });
            continue;
        }
        let ok_std = std_ok.entry(set).or_insert_with(|| {
            let stg = optrep::optimise_replica(&base, set, &[]);
            match stg.panic {
                Some(_) => vec![false; docs.len()],
                None => {
                    let last = &stg.stages.last().unwrap().1;
                    docs.iter().enumerate().map(|(i, d)| (last.val3(d).unwrap_or(2) == 1) == (base3[i] == 1)).collect()
                }
            }
        });
        for (i, d) in docs.iter().enumerate() {
            let v = cur.val3(d).unwrap_or(2);
            st.transitions += 1;
            st.evaluations += 1;
            st.traces += 1;
            if base3[i] == 2 || !ok_std[i] {
                continue;
            }
            if v == 2 || (v == 1) != (base3[i] == 1) {
                st.push_violation(Violation {
                    signature: format!("pass-order:verdict-changes-only-in-this-order:{}", names.join(">")),
                    witness: format!("unoptimised={} after passes {:?} by hand={} (the standard order of the same passes agrees with the unoptimised rule) ; rule {} doc {}", eng::v3name(base3[i]), names, if v == 2 { "PANIC" } else { eng::v3name(v) }, one_line(&yaml), d.show()),
                    replay: json!({"kind":"pass-order","rule_yaml":yaml,"passes":seq,"document":crate::report::mobj_to_json(d)}),
                });
                break;
            }
        }
    }
    st.nontrivial += 1;
    st
}

fn last_pass(s: &Staged) -> &'static str {
    match s.stages.last() {
        Some((p, _)) if *p < 4 => optrep::PASSES[*p],
        _ => "none",
    }
}

pub fn one_line(yaml: &str) -> String {
    // detection lines only, joined
    yaml.lines()
        .filter(|l| l.starts_with("  "))
        .map(|l| l.trim())
        .collect::<Vec<_>>()
        .join(" ; ")
}

pub fn run(tier: Tier) -> i32 {
    let mut rep = Report::new("C01", tier);
    let level = if tier.thorough() { 2 } else { 1 };
    let (doc_cap, order_cap) = if tier.thorough() { (800, 720) } else { (300, 720) };
    let specs = if tier.thorough() { gen::universe(1) } else { gen::universe_quick() };
    let parts: Vec<Stats> = specs
        .par_iter()
        .map(|s| check_spec(s, level, doc_cap, order_cap))
        .collect();
    for p in parts {
        rep.stats.merge(p);
    }
    // passes in non-standard orders through the core API
    let po: Vec<&RuleSpec> = specs.iter().step_by(if tier.thorough() { 7 } else { 5 }).collect();
    let parts: Vec<Stats> = po.par_iter().map(|s| check_pass_orders(s, 1, 60)).collect();
    for p in parts {
        rep.stats.merge(p);
    }
    // or-groups with more distinct fields than the matrix key encoding's thresholds (128 / 2048 / 0xD800)
    rep.stats.merge(crate::wide::run(tier.thorough(), false));
    rep.stats.count("pass_order_rule_specs", po.len() as u64);
    rep.stats.count("rule_specs_enumerated", specs.len() as u64);
    rep.exhaustive = rep
        .stats
        .counters
        .get("rules_with_order_cap_hit")
        .cloned()
        .unwrap_or(0)
        == 0;
    rep.rule = "rules: all members of the bounded universe (gen::universe: single entries x key forms x value kinds, lists of 1-4 mixed members, 2-3 entry mappings and sequences, 2-3 identifier conditions incl. not/all()/of(), cast comparisons, all regex sources up to a length bound, or-groups with shared fields); each loaded rule x 16 switch sets x every hash iteration order of every optimiser map (stateless DFS over the PermMap choice points) ; optimised trees deduplicated by canonical Display; each distinct tree x the full product of per-field value alphabets. non-trivial = rule is discriminating on its document set AND some switch set changed the tree".into();
    rep.assumptions = vec![
        "every permutation of a small std HashMap is realisable (PermMap over-approximation)".into(),
        "matches() is a function of the Display-ed tree (automata/regexes are rebuilt from what Display shows)".into(),
        "regex, aho-corasick, serde_yaml are trusted".into(),
    ];
    rep.finish()
}
