//! A small backtracking regex matcher, independent of the `regex` crate, for the enumerated
//! subset: literals, escapes of punctuation, `.`, greedy `* + ?`, `|`, groups, `^`, `$`.
//! `parse` returns None for anything outside the subset (the caller then trusts the crate).

#[derive(Debug, Clone)]
enum Node {
    Char(char),
    Any,
    Start,
    End,
    Group(Box<Node>),
    Cat(Vec<Node>),
    Alt(Vec<Node>),
    Rep(Box<Node>, usize, Option<usize>),
}

pub struct Rx {
    node: Node,
    ci: bool,
}

struct P<'a> {
    s: &'a [char],
    i: usize,
}

impl<'a> P<'a> {
    fn alt(&mut self, depth: usize) -> Option<Node> {
        let mut alts = vec![self.cat(depth)?];
        while self.i < self.s.len() && self.s[self.i] == '|' {
            self.i += 1;
            alts.push(self.cat(depth)?);
        }
        Some(if alts.len() == 1 {
            alts.pop().unwrap()
        } else {
            Node::Alt(alts)
        })
    }
    fn cat(&mut self, depth: usize) -> Option<Node> {
        let mut items = vec![];
        while self.i < self.s.len() {
            let c = self.s[self.i];
            if c == '|' || c == ')' {
                break;
            }
            let atom = match c {
                '(' => {
                    self.i += 1;
                    if self.i < self.s.len() && self.s[self.i] == '?' {
                        return None; // flags / non-capturing groups: outside the subset
                    }
                    let inner = self.alt(depth + 1)?;
                    if self.i >= self.s.len() || self.s[self.i] != ')' {
                        return None;
                    }
                    self.i += 1;
                    Node::Group(Box::new(inner))
                }
                '.' => {
                    self.i += 1;
                    Node::Any
                }
                '^' => {
                    self.i += 1;
                    Node::Start
                }
                '$' => {
                    self.i += 1;
                    Node::End
                }
                '\\' => {
                    self.i += 1;
                    if self.i >= self.s.len() {
                        return None;
                    }
                    let e = self.s[self.i];
                    if e.is_ascii_punctuation() {
                        self.i += 1;
                        Node::Char(e)
                    } else {
                        return None; // classes like \d \w \b: outside the subset
                    }
                }
                '*' | '+' | '?' | '{' | '}' | '[' | ']' => return None,
                _ => {
                    self.i += 1;
                    Node::Char(c)
                }
            };
            // postfix
            let mut atom = atom;
            let mut reps = 0;
            while self.i < self.s.len() {
                let q = self.s[self.i];
                let (lo, hi) = match q {
                    '*' => (0, None),
                    '+' => (1, None),
                    '?' => (0, Some(1)),
                    _ => break,
                };
                self.i += 1;
                // lazy / possessive suffixes and stacked repetitions: outside the subset
                if self.i < self.s.len() && matches!(self.s[self.i], '?' | '+' | '*') {
                    return None;
                }
                if matches!(atom, Node::Start | Node::End) {
                    return None;
                }
                reps += 1;
                if reps > 1 {
                    return None;
                }
                atom = Node::Rep(Box::new(atom), lo, hi);
            }
            items.push(atom);
        }
        let _ = depth;
        Some(Node::Cat(items))
    }
}

pub fn parse(src: &str, ci: bool) -> Option<Rx> {
    let chars: Vec<char> = src.chars().collect();
    let mut p = P { s: &chars, i: 0 };
    let node = p.alt(0)?;
    if p.i != chars.len() {
        return None;
    }
    Some(Rx { node, ci })
}

fn eqc(a: char, b: char, ci: bool) -> bool {
    if ci {
        // a case-insensitive *regex* folds case by Unicode simple folding (unlike the i prefix on
        // plain patterns, which is ASCII-only): É ~ é, K (U+212A) ~ k, ſ ~ s
        a == b || a.to_lowercase().eq(b.to_lowercase()) || a.to_uppercase().eq(b.to_uppercase())
    } else {
        a == b
    }
}

fn m(n: &Node, s: &[char], i: usize, ci: bool, k: &mut dyn FnMut(usize) -> bool) -> bool {
    match n {
        Node::Char(c) => i < s.len() && eqc(s[i], *c, ci) && k(i + 1),
        Node::Any => i < s.len() && s[i] != '\n' && k(i + 1),
        Node::Start => i == 0 && k(i),
        Node::End => i == s.len() && k(i),
        Node::Group(g) => m(g, s, i, ci, k),
        Node::Cat(items) => cat(items, s, i, ci, k),
        Node::Alt(alts) => {
            for a in alts {
                if m(a, s, i, ci, k) {
                    return true;
                }
            }
            false
        }
        Node::Rep(inner, lo, hi) => rep(inner, *lo, *hi, 0, s, i, ci, k),
    }
}

fn cat(items: &[Node], s: &[char], i: usize, ci: bool, k: &mut dyn FnMut(usize) -> bool) -> bool {
    match items.split_first() {
        None => k(i),
        Some((first, rest)) => m(first, s, i, ci, &mut |j| cat(rest, s, j, ci, k)),
    }
}

#[allow(clippy::too_many_arguments)]
fn rep(
    inner: &Node,
    lo: usize,
    hi: Option<usize>,
    count: usize,
    s: &[char],
    i: usize,
    ci: bool,
    k: &mut dyn FnMut(usize) -> bool,
) -> bool {
    if hi.map(|h| count < h).unwrap_or(true) {
        // try one more (guard against empty iterations looping forever)
        let more = m(inner, s, i, ci, &mut |j| {
            if j == i {
                false
            } else {
                rep(inner, lo, hi, count + 1, s, j, ci, k)
            }
        });
        if more {
            return true;
        }
    }
    if count >= lo {
        return k(i);
    }
    // an inner that can match empty satisfies the lower bound without consuming
    if count < lo {
        let empty_ok = m(inner, s, i, ci, &mut |j| j == i);
        if empty_ok {
            return k(i);
        }
    }
    false
}

impl Rx {
    /// unanchored search
    pub fn is_match(&self, hay: &str) -> bool {
        let s: Vec<char> = hay.chars().collect();
        for start in 0..=s.len() {
            if m(&self.node, &s, start, self.ci, &mut |_| true) {
                return true;
            }
        }
        false
    }
}
