//! Rule specifications, YAML rendering and the shared bounded universes (DESIGN section 3).

use crate::mdoc::{arr, obj, s, MObj, MVal};

#[derive(Clone, Debug, PartialEq)]
pub enum Sc {
    Str(String),
    Int(i64),
    Float(f64),
    Bool(bool),
    Null,
}

#[derive(Clone, Debug, PartialEq)]
pub enum Val {
    Sc(Sc),
    List(Vec<Val>),
    Map(Vec<Entry>),
}

#[derive(Clone, Debug, PartialEq)]
pub struct Entry {
    pub key: String,
    pub val: Val,
}

#[derive(Clone, Debug, PartialEq)]
pub enum Body {
    Map(Vec<Entry>),
    Seq(Vec<Vec<Entry>>),
}

#[derive(Clone, Debug, PartialEq)]
pub struct RuleSpec {
    pub idents: Vec<(String, Body)>,
    pub cond: String,
}

pub fn st(x: &str) -> Val {
    Val::Sc(Sc::Str(x.to_string()))
}
pub fn int(i: i64) -> Val {
    Val::Sc(Sc::Int(i))
}
pub fn flt(f: f64) -> Val {
    Val::Sc(Sc::Float(f))
}
pub fn boolean(b: bool) -> Val {
    Val::Sc(Sc::Bool(b))
}
pub fn null() -> Val {
    Val::Sc(Sc::Null)
}
pub fn list(v: Vec<Val>) -> Val {
    Val::List(v)
}
pub fn e(key: &str, val: Val) -> Entry {
    Entry {
        key: key.to_string(),
        val,
    }
}
pub fn map(v: Vec<Entry>) -> Val {
    Val::Map(v)
}

fn q(x: &str) -> String {
    // JSON string syntax is valid YAML double-quoted flow scalar
    serde_json::to_string(x).unwrap()
}

impl Sc {
    pub fn yaml(&self) -> String {
        match self {
            Sc::Str(x) => q(x),
            Sc::Int(i) => i.to_string(),
            Sc::Float(f) => {
                if f.is_nan() {
                    ".nan".into()
                } else if f.is_infinite() {
                    if *f > 0.0 { ".inf".into() } else { "-.inf".into() }
                } else {
                    let t = format!("{:?}", f);
                    t
                }
            }
            Sc::Bool(b) => b.to_string(),
            Sc::Null => "null".into(),
        }
    }
}
impl Val {
    pub fn yaml(&self) -> String {
        match self {
            Val::Sc(x) => x.yaml(),
            Val::List(v) => format!(
                "[{}]",
                v.iter().map(|x| x.yaml()).collect::<Vec<_>>().join(", ")
            ),
            Val::Map(m) => entries_yaml(m),
        }
    }
}
pub fn entries_yaml(m: &[Entry]) -> String {
    format!(
        "{{{}}}",
        m.iter()
            .map(|e| format!("{}: {}", q(&e.key), e.val.yaml()))
            .collect::<Vec<_>>()
            .join(", ")
    )
}
impl Body {
    pub fn yaml(&self) -> String {
        match self {
            Body::Map(m) => entries_yaml(m),
            Body::Seq(s) => format!(
                "[{}]",
                s.iter().map(|m| entries_yaml(m)).collect::<Vec<_>>().join(", ")
            ),
        }
    }
}
impl RuleSpec {
    pub fn yaml(&self) -> String {
        let mut out = String::from("detection:\n");
        for (k, b) in &self.idents {
            out.push_str(&format!("  {}: {}\n", q(k), b.yaml()));
        }
        out.push_str(&format!("  condition: {}\n", q(&self.cond)));
        out.push_str("true_positives: []\ntrue_negatives: []\n");
        out
    }
    pub fn one(body: Body) -> RuleSpec {
        RuleSpec {
            idents: vec![("A".into(), body)],
            cond: "A".into(),
        }
    }
}

// ---------------------------------------------------------------------------------------------
// which document slots does a rule touch

/// Root field names written in the rule (first path segment, index stripped), in first-seen
/// order, each with a shape hint: 0 = plain, 1 = container (nested mapping / dotted), 2 = indexed.
pub fn slots(spec: &RuleSpec) -> Vec<(String, u8)> {
    let mut out: Vec<(String, u8)> = vec![];
    fn add(out: &mut Vec<(String, u8)>, name: &str, hint: u8) {
        if let Some(x) = out.iter_mut().find(|(n, _)| n == name) {
            x.1 = x.1.max(hint);
        } else {
            out.push((name.to_string(), hint));
        }
    }
    fn field_of_key(key: &str) -> String {
        // strip modifier wrappers: all(k) of(k,n) not(k) int(k) flt(k) str(k)
        let k = key.trim();
        for p in ["all(", "of(", "not(", "int(", "flt(", "str(", "string("] {
            if let Some(rest) = k.strip_prefix(p) {
                let inner = rest.trim_end_matches(')');
                let inner = inner.split(',').next().unwrap_or("").trim();
                return inner.to_string();
            }
        }
        k.to_string()
    }
    fn walk(out: &mut Vec<(String, u8)>, m: &[Entry]) {
        for en in m {
            let f = field_of_key(&en.key);
            let root = f.split('.').next().unwrap_or("");
            let (name, idx) = match root.find('[') {
                Some(i) => (&root[..i], true),
                None => (root, false),
            };
            let mut hint = 0;
            if f.contains('.') {
                hint = 1;
            }
            if idx {
                hint = 2;
            }
            let nested = match &en.val {
                Val::Map(_) => true,
                Val::List(v) => v.iter().any(|x| matches!(x, Val::Map(_))),
                _ => false,
            };
            if nested {
                hint = hint.max(1);
            }
            add(out, name, hint);
        }
    }
    for (_, b) in &spec.idents {
        match b {
            Body::Map(m) => walk(&mut out, m),
            Body::Seq(s) => {
                for m in s {
                    walk(&mut out, m)
                }
            }
        }
    }
    // cast fields in the condition: int(f) flt(f) str(f)
    let c = &spec.cond;
    for p in ["int(", "flt(", "str("] {
        let mut rest = c.as_str();
        while let Some(i) = rest.find(p) {
            let tail = &rest[i + p.len()..];
            if let Some(j) = tail.find(')') {
                let name = tail[..j].trim();
                if !name.is_empty() {
                    add(&mut out, name.split('.').next().unwrap(), 0);
                }
            }
            rest = &rest[i + p.len()..];
        }
    }
    out
}

/// Value alphabets per slot kind. `level` 0 = small (quick), 1 = medium, 2 = full.
pub fn slot_values(hint: u8, level: u8) -> Vec<Option<MVal>> {
    let nested_a = obj(vec![("x", s("a"))]);
    let nested_b = obj(vec![("x", s("b")), ("y", s("b"))]);
    let arr_objs = arr(vec![
        obj(vec![("x", s("a"))]),
        obj(vec![("x", s("b")), ("y", s("b"))]),
    ]);
    match hint {
        0 => {
            let mut v = vec![
                None,
                Some(s("a")),
                Some(s("ab")),
                Some(s("x")),
                Some(MVal::Int(1)),
                Some(arr(vec![s("a"), s("b")])),
            ];
            if level >= 1 {
                v.extend(vec![
                    Some(s("A")),
                    Some(s("")),
                    Some(MVal::Int(2)),
                    Some(MVal::Float(1.5)),
                    Some(MVal::Bool(true)),
                    Some(MVal::Null),
                ]);
            }
            if level >= 2 {
                v.extend(vec![
                    Some(arr(vec![])),
                    Some(arr(vec![MVal::Int(1), s("a")])),
                    Some(nested_a.clone()),
                    Some(MVal::UInt(1)),
                    Some(s("ba")),
                    Some(MVal::Bool(false)),
                ]);
            }
            v
        }
        1 => {
            let mut v = vec![
                None,
                Some(nested_a.clone()),
                Some(nested_b.clone()),
                Some(arr_objs.clone()),
                Some(s("a")),
            ];
            if level >= 1 {
                v.extend(vec![
                    Some(obj(vec![])),
                    Some(obj(vec![("y", s("a"))])),
                    Some(obj(vec![("x", MVal::Int(1)), ("y", s("a"))])),
                ]);
            }
            if level >= 2 {
                v.extend(vec![
                    Some(arr(vec![])),
                    Some(arr(vec![s("a"), obj(vec![("x", s("a")), ("y", s("b"))])])),
                    Some(obj(vec![("x", arr(vec![s("a"), s("b")]))])),
                    Some(MVal::Null),
                ]);
            }
            v
        }
        _ => {
            let mut v = vec![
                None,
                Some(arr(vec![s("a")])),
                Some(arr(vec![s("b"), s("a")])),
                Some(s("a")),
                Some(arr(vec![obj(vec![("x", s("a"))])])),
                Some(arr(vec![obj(vec![("x", s("b"))]), obj(vec![("x", s("a")), ("y", s("a"))])])),
            ];
            if level >= 1 {
                v.extend(vec![Some(arr(vec![])), Some(arr(vec![MVal::Int(1)]))]);
            }
            if level >= 2 {
                v.extend(vec![Some(MVal::Null), Some(obj(vec![("x", s("a"))]))]);
            }
            v
        }
    }
}

/// All documents over the slots of `spec` (plus one unnamed field `zz` when `extra`).
pub fn docs_for(spec: &RuleSpec, level: u8, cap: usize) -> Vec<MObj> {
    // the wide-list family brings its own documents
    if let Some((_, Body::Map(m))) = spec.idents.first() {
        if let Some(Val::List(v)) = m.first().map(|en| &en.val) {
            if v.len() >= 60 {
                return wide_docs(v.len());
            }
        }
    }
    let sl = slots(spec);
    docs_for_slots(&sl, level, cap)
}

pub fn docs_for_slots(sl: &[(String, u8)], level: u8, cap: usize) -> Vec<MObj> {
    // lower the level until the product fits under the cap (always a full product: exhaustive
    // over the alphabet actually used)
    let mut level = level;
    loop {
        let alph: Vec<Vec<Option<MVal>>> = sl.iter().map(|(_, h)| slot_values(*h, level)).collect();
        let total: usize = alph.iter().map(|a| a.len()).product();
        if total <= cap || level == 0 {
            let mut out = Vec::with_capacity(total.min(cap));
            let mut idx = vec![0usize; sl.len()];
            'outer: loop {
                let mut d = MObj::new();
                for (i, (name, _)) in sl.iter().enumerate() {
                    if let Some(v) = &alph[i][idx[i]] {
                        d.0.push((name.clone(), v.clone()));
                    }
                }
                out.push(d);
                if out.len() >= cap.max(1) && total > cap {
                    break;
                }
                let mut k = 0;
                loop {
                    if k == sl.len() {
                        break 'outer;
                    }
                    idx[k] += 1;
                    if idx[k] < alph[k].len() {
                        break;
                    }
                    idx[k] = 0;
                    k += 1;
                }
            }
            return out;
        }
        level -= 1;
    }
}

// ---------------------------------------------------------------------------------------------
// leaf alphabets

pub fn string_patterns(level: u8) -> Vec<&'static str> {
    let mut v = vec!["x", "a*", "*a", "*a*", "*", "?a", "ia", "i*A*", "?^a.*b$"];
    if level >= 1 {
        v.extend(vec!["i?a", "'*a'", "", "ab", "b*", "*b", "ia*", "i*B", "?.*a.*", "i?^A", "i?\\W", "i?^\\D+$"]);
    }
    v
}

pub fn scalar_values(level: u8) -> Vec<Val> {
    let mut v: Vec<Val> = string_patterns(level).into_iter().map(st).collect();
    v.extend(vec![int(1), flt(1.5), st("=1"), st(">1"), st("<=1"), st(">=1.5"), boolean(true), null()]);
    if level >= 1 {
        v.extend(vec![int(2), boolean(false), st("<1.5"), st(">=1"), st("<2"), st("=1.5")]);
    }
    v
}

/// members for lists (mixed kinds)
pub fn list_members(level: u8) -> Vec<Val> {
    let mut v = vec![
        st("x"),
        st("a*"),
        st("*b"),
        st("*a*"),
        st("ia"),
        st("i*B*"),
        st("?a"),
        st("?b$"),
        int(1),
        st(">1"),
        boolean(true),
        map(vec![e("x", st("a"))]),
        null(),
        st("?a.*"),
        st("?.*a"),
    ];
    if level >= 1 {
        v.extend(vec![
            st("*"),
            st("i?^a"),
            st(""),
            st("ab"),
            int(2),
            flt(1.5),
            map(vec![e("x", st("b")), e("y", st("b"))]),
            st("ib*"),
            st("i?b"),
        ]);
    }
    v
}

pub fn key_forms_scalar() -> Vec<&'static str> {
    vec!["f", "not(f)", "int(f)", "flt(f)", "str(f)", "n.x", "l[0]"]
}
pub fn key_forms_list() -> Vec<&'static str> {
    vec![
        "f", "not(f)", "int(f)", "str(f)", "all(f)", "of(f, 0)", "of(f, 1)", "of(f, 2)", "n.x",
    ]
}

/// Family 1: one identifier, one entry.
pub fn family_single(level: u8) -> Vec<RuleSpec> {
    let mut out = vec![];
    for k in key_forms_scalar() {
        for v in scalar_values(level) {
            out.push(RuleSpec::one(Body::Map(vec![e(k, v)])));
        }
    }
    let mem = list_members(level);
    for k in key_forms_list() {
        // singletons
        for a in &mem {
            out.push(RuleSpec::one(Body::Map(vec![e(k, list(vec![a.clone()]))])));
        }
        // all ordered pairs (level 0: pairs over the first 12 members)
        for (i, a) in mem.iter().enumerate() {
            for (j, b) in mem.iter().enumerate() {
                if level == 0 && (i > j) {
                    continue;
                }
                out.push(RuleSpec::one(Body::Map(vec![e(
                    k,
                    list(vec![a.clone(), b.clone()]),
                )])));
            }
        }
    }
    // triples and quads over the string-ish members
    let sm: Vec<Val> = vec![st("a*"), st("*b"), st("*a*"), st("x"), st("ia"), st("i*B*"), st("?a"), st("?b$"), st("i?^a")];
    let ks = ["f", "all(f)", "of(f, 1)", "of(f, 2)", "of(f, 3)", "of(f, 0)", "str(f)", "not(f)"];
    let n = if level == 0 { 6 } else { sm.len() };
    for k in ks {
        for i in 0..n {
            for j in (i + 1)..n {
                for l in (j + 1)..n {
                    out.push(RuleSpec::one(Body::Map(vec![e(
                        k,
                        list(vec![sm[i].clone(), sm[j].clone(), sm[l].clone()]),
                    )])));
                    if level >= 1 {
                        for m in (l + 1)..n {
                            out.push(RuleSpec::one(Body::Map(vec![e(
                                k,
                                list(vec![sm[i].clone(), sm[j].clone(), sm[l].clone(), sm[m].clone()]),
                            )])));
                        }
                    }
                }
            }
        }
    }
    // repeated members next to distinct ones
    for k in ["f", "all(f)", "of(f, 2)", "str(f)"] {
        for (a, b) in [("a*", "*b"), ("x", "ab"), ("ia", "i*B*"), ("?a", "?b$"), ("*a*", "a*")] {
            out.push(RuleSpec::one(Body::Map(vec![e(k, list(vec![st(a), st(b), st(a)]))])));
            out.push(RuleSpec::one(Body::Map(vec![e(k, list(vec![st(a), st(a), st(b), st(b)]))])));
        }
    }
    // nested mappings
    let inner: Vec<Val> = vec![st("a"), st("b*"), st("*"), int(1), list(vec![st("a"), st("b")]), list(vec![st("a*"), st("?b")])];
    for a in &inner {
        out.push(RuleSpec::one(Body::Map(vec![e("n", map(vec![e("x", a.clone())]))])));
        for b in &inner {
            out.push(RuleSpec::one(Body::Map(vec![e(
                "n",
                map(vec![e("x", a.clone()), e("y", b.clone())]),
            )])));
        }
    }
    out.push(RuleSpec::one(Body::Map(vec![e(
        "n",
        map(vec![e("x", map(vec![e("z", st("a"))]))]),
    )])));
    for inner in [
        map(vec![e("not(x)", st("a"))]),
        map(vec![e("not(x)", st("a")), e("y", st("b"))]),
        map(vec![e("all(x)", list(vec![st("*a*"), st("*b*")]))]),
        map(vec![e("of(x, 0)", list(vec![st("a"), st("b")]))]),
        map(vec![e("int(x)", int(1))]),
        map(vec![e("x", null())]),
    ] {
        out.push(RuleSpec::one(Body::Map(vec![e("n", inner.clone())])));
        out.push(RuleSpec::one(Body::Seq(vec![vec![e("n", inner.clone())], vec![e("f", st("a"))]])));
    }
    // every single-identifier rule once more under a negation and under none-of
    let plain = out.clone();
    for (i, sp) in plain.into_iter().enumerate() {
        let mut neg = sp.clone();
        neg.cond = "not A".into();
        out.push(neg);
        if i % 4 == 0 {
            let mut none = sp;
            none.cond = "of(A, 0)".into();
            out.push(none);
        }
    }
    out
}

/// A pool of diverse one-entry bodies used to build composite rules.
pub fn entry_pool(level: u8) -> Vec<Entry> {
    let mut v = vec![
        e("f", st("a")),
        e("f", st("a*")),
        e("f", st("*b")),
        e("f", st("i*A*")),
        e("f", st("?a")),
        e("g", st("x")),
        e("g", st("*a*")),
        e("g", list(vec![st("a*"), st("*b")])),
        e("f", int(1)),
        e("not(f)", st("a")),
        e("str(f)", st("1")),
        e("n", map(vec![e("x", st("a"))])),
        e("n", map(vec![e("y", st("b"))])),
        e("n.x", st("a")),
        e("not(g)", st("x")),
        // the same pattern on a second field: merged groups that tie in the optimiser's sorts
        e("g", st("a*")),
        e("g", st("?a")),
        // a numeric-looking pattern on a plain key next to a str() key: whether the value is cast
        // must not depend on the neighbouring key
        e("g", st("1")),
        e("str(g)", st("1*")),
        e("g", st("2")),
        e("f", st("")),
    ];
    if level >= 1 {
        v.extend(vec![
            e("f", st("b*")),
            e("g", st("?^a")),
            e("g", st("ia")),
            e("f", list(vec![st("ia"), st("i*b")])),
            e("all(f)", list(vec![st("*a*"), st("*b*")])),
            e("of(g, 1)", list(vec![st("a*"), st("?b")])),
            e("int(f)", st(">=1")),
            e("f", st(">1")),
            e("f", boolean(true)),
            e("g", null()),
            e("f", st("*")),
            e("l[0]", st("a")),
            e("n", map(vec![e("x", st("b")), e("y", st("b"))])),
            e("f", list(vec![map(vec![e("x", st("a"))]), map(vec![e("x", st("b"))])])),
        ]);
    }
    v
}

/// Family 2: mappings of two/three entries and sequences of mappings under condition `A`.
pub fn family_bodies(level: u8) -> Vec<RuleSpec> {
    let pool = entry_pool(level);
    let mut out = vec![];
    let n = pool.len();
    for i in 0..n {
        for j in 0..n {
            if i == j {
                continue;
            }
            if pool[i].key == pool[j].key {
                // duplicate keys in one YAML mapping are rejected by serde_yaml; skip
            } else {
                out.push(RuleSpec::one(Body::Map(vec![pool[i].clone(), pool[j].clone()])));
            }
            out.push(RuleSpec::one(Body::Seq(vec![
                vec![pool[i].clone()],
                vec![pool[j].clone()],
            ])));
        }
    }
    // three rows / mixed widths over a smaller pool
    let m = if level == 0 { 8 } else { 14 };
    for i in 0..m {
        for j in 0..m {
            for k in 0..m {
                if i == j || j == k || i == k {
                    continue;
                }
                if level == 0 && !(i < j) {
                    continue;
                }
                if pool[i].key != pool[j].key {
                    out.push(RuleSpec::one(Body::Seq(vec![
                        vec![pool[i].clone(), pool[j].clone()],
                        vec![pool[k].clone()],
                    ])));
                }
                if i < j && j < k {
                    out.push(RuleSpec::one(Body::Seq(vec![
                        vec![pool[i].clone()],
                        vec![pool[j].clone()],
                        vec![pool[k].clone()],
                    ])));
                    if pool[i].key != pool[j].key && pool[j].key != pool[k].key && pool[i].key != pool[k].key {
                        out.push(RuleSpec::one(Body::Map(vec![
                            pool[i].clone(),
                            pool[j].clone(),
                            pool[k].clone(),
                        ])));
                    }
                }
            }
        }
    }
    out
}

pub fn conditions2() -> Vec<&'static str> {
    vec![
        "A and B",
        "A or B",
        "A and not B",
        "not A and B",
        "not A or B",
        "A or not B",
        "not (A and B)",
        "not (A or B)",
        "not A and not B",
        "not not A",
        "not not A or B",
        "not (not A and B)",
        "not A or not B",
    ]
}
pub fn conditions_q() -> Vec<&'static str> {
    vec![
        "all(A)",
        "of(A, 1)",
        "of(A, 2)",
        "of(A, 0)",
        "of(A, 3)",
        "not all(A)",
        "not of(A, 1)",
        "not of(A, 0)",
        "not of(A, 2)",
        "not of(A, 3)",
        "all(A) and B",
        "of(A, 1) or B",
        "B and of(A, 2)",
        "not B or all(A)",
        "of(A, 0) and B",
    ]
}
pub fn conditions3() -> Vec<&'static str> {
    vec![
        "A and B and C",
        "A or B or C",
        "A and B or C",
        "A or B and C",
        "A and (B or C)",
        "(A or B) and C",
        "not (A or B or C)",
        "not (A and B and C)",
        "A and not (B or C)",
        "not A or B and not C",
        "(A and B) or (A and C)",
        "(A or B) and (A or C)",
        "not A or not B or not C",
        "not A and not B and not C",
        "not A or not B and C",
    ]
}

pub fn body_pool(level: u8) -> Vec<Body> {
    let p = entry_pool(0);
    let mut v = vec![
        Body::Map(vec![p[0].clone()]),                  // f: a
        Body::Map(vec![p[11].clone()]),                 // n: {x: a}
        Body::Map(vec![p[12].clone()]),                 // n: {y: b}
        Body::Map(vec![p[6].clone()]),                  // g: *a*
        Body::Map(vec![p[1].clone()]),                  // f: a*
        Body::Map(vec![p[2].clone(), p[5].clone()]),    // f: *b, g: x
        Body::Seq(vec![vec![p[0].clone()], vec![p[5].clone()]]), // [f:a, g:x]
        Body::Map(vec![p[8].clone()]),                  // f: 1
    ];
    if level >= 1 {
        v.extend(vec![
            Body::Map(vec![p[3].clone()]),              // f: i*A*
            Body::Map(vec![p[4].clone()]),              // f: ?a
            Body::Map(vec![p[7].clone()]),              // g: [a*, *b]
            Body::Map(vec![p[9].clone()]),              // not(f): a
            Body::Seq(vec![vec![p[1].clone(), p[5].clone()], vec![p[2].clone()], vec![p[6].clone()]]),
            Body::Map(vec![p[13].clone()]),             // n.x: a
        ]);
    }
    v
}

/// bodies suitable for all()/of() over identifiers (sequences, mappings, single lists)
pub fn quant_bodies(level: u8) -> Vec<Body> {
    let p = entry_pool(0);
    let mut v = vec![
        Body::Seq(vec![vec![p[0].clone()], vec![p[5].clone()]]),
        Body::Seq(vec![vec![p[1].clone()], vec![p[2].clone()], vec![p[6].clone()]]),
        Body::Seq(vec![vec![p[1].clone()], vec![p[2].clone()]]),
        Body::Seq(vec![vec![p[11].clone()], vec![p[12].clone()]]),
        Body::Map(vec![p[7].clone()]),
        Body::Map(vec![p[0].clone(), p[5].clone()]),
        Body::Map(vec![e("f", list(vec![st("*a*"), st("*b*"), st("?c")]))]),
        // a row that is itself a plain list of several kinds (an or-group of searches inside the
        // group the quantifier counts)
        Body::Seq(vec![vec![e("g", list(vec![st("*a*"), st("?b$")]))], vec![p[0].clone()]]),
        Body::Seq(vec![vec![e("f", list(vec![st("a*"), st("?b"), st("ib")]))], vec![p[5].clone()], vec![p[6].clone()]]),
    ];
    if level >= 1 {
        v.extend(vec![
            Body::Seq(vec![vec![p[0].clone()], vec![p[8].clone()], vec![p[5].clone()]]),
            Body::Seq(vec![vec![p[4].clone()], vec![e("f", st("?b"))]]),
            Body::Seq(vec![vec![p[3].clone()], vec![e("f", st("ib*"))], vec![p[5].clone()]]),
            Body::Seq(vec![vec![p[1].clone(), p[5].clone()], vec![p[2].clone(), p[6].clone()]]),
            Body::Seq(vec![vec![p[0].clone()]]),
            Body::Map(vec![e("f", list(vec![st("a*"), st("ia")]))]),
            Body::Seq(vec![vec![p[11].clone()], vec![p[0].clone()], vec![e("n", map(vec![e("x", st("b"))]))]]),
        ]);
    }
    v
}

/// Family 3: conditions over two / three identifiers and quantifiers over identifiers.
pub fn family_conditions(level: u8) -> Vec<RuleSpec> {
    let pool = body_pool(level);
    let mut out = vec![];
    for c in conditions2() {
        for a in &pool {
            for b in &pool {
                out.push(RuleSpec {
                    idents: vec![("A".into(), a.clone()), ("B".into(), b.clone())],
                    cond: c.into(),
                });
            }
        }
    }
    let qb = quant_bodies(level);
    for c in conditions_q() {
        for a in &qb {
            for b in pool.iter().take(if level == 0 { 3 } else { 6 }) {
                if !c.contains('B') && b != &pool[0] {
                    continue;
                }
                out.push(RuleSpec {
                    idents: vec![("A".into(), a.clone()), ("B".into(), b.clone())],
                    cond: c.into(),
                });
            }
        }
    }
    let m = if level == 0 { 4 } else { 7 };
    for c in conditions3() {
        for a in pool.iter().take(m) {
            for b in pool.iter().take(m) {
                for cc in pool.iter().take(m) {
                    out.push(RuleSpec {
                        idents: vec![
                            ("A".into(), a.clone()),
                            ("B".into(), b.clone()),
                            ("C".into(), cc.clone()),
                        ],
                        cond: c.into(),
                    });
                }
            }
        }
    }
    // cast comparisons in the condition
    for c in [
        "int(f) == 1",
        "1 == int(f)",
        "int(f) > 1",
        "1 < int(f)",
        "int(f) <= 1",
        "flt(f) >= 1.5",
        "1.5 > flt(f)",
        "str(f) == str(g)",
        "int(f) == int(g)",
        "flt(f) < flt(g)",
        "A and int(f) == 1",
        "not int(f) == 1",
        "A or flt(g) < 1.5",
        "int(f) == 1 or int(g) == 1",
        "not (int(f) >= 1 and A)",
        "1 >= int(f)",
        "1 <= int(f)",
        "1 > int(f)",
        "2 >= int(f) and A",
        "1.5 < flt(f)",
        "1.5 <= flt(f)",
        "1.5 >= flt(f)",
        "not (1 >= int(f))",
    ] {
        out.push(RuleSpec {
            idents: vec![("A".into(), pool[2].clone())],
            cond: c.into(),
        });
    }
    out
}

/// Family 4: regexes for `rewrite` - every source up to `maxlen` over the alphabet.
pub fn family_regex(maxlen: usize) -> Vec<RuleSpec> {
    let alpha = ['.', '*', 'a', '?', '+', '\\', '|', 'b'];
    let mut out = vec![];
    let mut cur: Vec<String> = vec![String::new()];
    for _ in 0..maxlen {
        let mut next = vec![];
        for c in &cur {
            for a in alpha {
                let mut t = c.clone();
                t.push(a);
                next.push(t);
            }
        }
        for t in &next {
            // only sources that mention the wildcard are interesting for rewrite; keep all <= 2
            if t.len() <= 2 || t.contains(".*") {
                out.push(RuleSpec::one(Body::Map(vec![e("f", st(&format!("?{}", t)))])));
                if t.contains(".*") && t.len() <= 4 {
                    out.push(RuleSpec::one(Body::Map(vec![e("f", st(&format!("i?{}", t)))])));
                    out.push(RuleSpec::one(Body::Map(vec![e(
                        "f",
                        list(vec![st(&format!("?{}", t)), st("?b.*")]),
                    )])));
                }
            }
        }
        cur = next;
    }
    out
}

/// Family 5: or-groups with shared fields (matrix) incl. numbers, casts and nested blocks.
pub fn family_matrix(level: u8) -> Vec<RuleSpec> {
    let cells: Vec<Entry> = vec![
        e("f", st("a*")),
        e("f", st("*b")),
        e("g", st("x")),
        e("g", st("*a*")),
        e("h", st("a")),
        e("f", int(1)),
        e("int(g)", int(1)),
        e("n", map(vec![e("x", st("a"))])),
        e("f", st("ia")),
        e("g", null()),
        e("h", st("?a")),
        e("str(f)", st("1*")),
    ];
    let n = if level == 0 { 8 } else { cells.len() };
    let mut rows: Vec<Vec<Entry>> = vec![];
    for i in 0..n {
        rows.push(vec![cells[i].clone()]);
        for j in 0..n {
            if i != j && cells[i].key != cells[j].key {
                rows.push(vec![cells[i].clone(), cells[j].clone()]);
            }
        }
    }
    let mut out = vec![];
    // sequences of 2 rows: all; 3 rows: those sharing a field, strided
    for (i, a) in rows.iter().enumerate() {
        for (j, b) in rows.iter().enumerate() {
            if i == j {
                continue;
            }
            let share = a.iter().any(|x| b.iter().any(|y| field_root(&x.key) == field_root(&y.key)));
            if !share {
                continue;
            }
            if a.len() + b.len() >= 3 || level >= 1 {
                out.push(RuleSpec::one(Body::Seq(vec![a.clone(), b.clone()])));
            }
        }
    }
    let stride = if level == 0 { 97 } else { 11 };
    let mut c = 0usize;
    for a in rows.iter().filter(|r| r.len() == 2) {
        for b in rows.iter().filter(|r| r.len() == 2) {
            for d in rows.iter() {
                c += 1;
                if c % stride != 0 {
                    continue;
                }
                out.push(RuleSpec::one(Body::Seq(vec![a.clone(), b.clone(), d.clone()])));
            }
        }
    }
    // under negation and quantifiers
    let base = out.clone();
    for (i, r) in base.iter().enumerate() {
        if i % (if level == 0 { 9 } else { 3 }) == 0 {
            for cnd in ["not A", "all(A)", "of(A, 2)", "of(A, 0)"] {
                let mut s2 = r.clone();
                s2.cond = cnd.into();
                out.push(s2);
            }
        }
    }
    out
}

fn field_root(key: &str) -> String {
    let k = key.trim();
    for p in ["all(", "of(", "not(", "int(", "flt(", "str("] {
        if let Some(rest) = k.strip_prefix(p) {
            return rest.trim_end_matches(')').split(',').next().unwrap_or("").trim().to_string();
        }
    }
    k.to_string()
}

/// Family 6: conditions that combine cast comparisons (incl. field-vs-field and literal-first)
/// with identifiers under and/or/not - after coalesce+shake these become groups the matrix
/// pass looks at.
pub fn family_castconds(level: u8) -> Vec<RuleSpec> {
    let atoms = [
        "int(f) == 1",
        "int(f) == int(g)",
        "1 < int(g)",
        "flt(f) >= 1.5",
        "str(f) == str(g)",
        "int(h) == 2",
        "A",
        "not A",
        "int(g) >= 2",
        "flt(f) < flt(h)",
        "1 >= int(f)",
        "2 > int(g)",
        "1.5 <= flt(f)",
    ];
    let n = if level == 0 { 8 } else { atoms.len() };
    let shapes3 = [
        "({0} and {1} and {2}) or {3} or {4}",
        "({0} and {1}) or {2}",
        "{0} or {1} or {2}",
        "({0} or {1}) and {2}",
        "not ({0} and {1}) or {2}",
        "{0} and {1} and {2}",
        "({0} and {1}) or ({2} and {3})",
    ];
    let body = Body::Map(vec![e("f", st("1*"))]);
    // a multi-key identifier: and-ed with comparisons it widens a conjunction
    let body_b = Body::Map(vec![e("g", st("*")), e("h", st("2"))]);
    let mut atoms: Vec<&str> = atoms.to_vec();
    atoms.truncate(n);
    atoms.push("B");
    let n = atoms.len();
    let mut out = vec![];
    let push = |out: &mut Vec<RuleSpec>, cond: String| {
        out.push(RuleSpec {
            idents: vec![("A".into(), body.clone()), ("B".into(), body_b.clone())],
            cond,
        });
    };
    // conjunction of three (all combinations) or-ed with fixed pairs of disjuncts
    let tails = [
        ("int(f) == 1", "int(f) == 2"),
        ("int(h) == 2", "A"),
        ("int(g) >= 2", "int(f) == int(g)"),
        ("B", "int(g) == 3"),
    ];
    for i in 0..n {
        for j in 0..n {
            for k in 0..n {
                for (ti, (d, e2)) in tails.iter().enumerate() {
                    if level == 0 && ti >= 2 && (i + j + k) % 2 == 1 {
                        continue;
                    }
                    push(&mut out, format!("({} and {} and {}) or {} or {}", atoms[i], atoms[j], atoms[k], d, e2));
                }
            }
        }
    }
    // two conjunctions of two plus a third disjunct
    for i in 0..n {
        for j in 0..n {
            for k in 0..n {
                if level == 0 && (i * 7 + j * 3 + k) % 3 != 0 {
                    continue;
                }
                push(&mut out, format!("({} and {}) or ({} and int(f) == 3) or int(g) == 1", atoms[i], atoms[j], atoms[k]));
            }
        }
    }
    for sh in shapes3.iter().skip(1) {
        let slots = sh.matches('{').count();
        if slots > 3 {
            continue;
        }
        let total = n.pow(slots as u32);
        for k in 0..total {
            let mut t = sh.to_string();
            let mut m = k;
            for i in 0..slots {
                t = t.replace(&format!("{{{}}}", i), atoms[m % n]);
                m /= n;
            }
            push(&mut out, t);
        }
    }
    out
}

/// Family 7: paths with an index followed by further segments, and containers inside containers.
pub fn family_paths(_level: u8) -> Vec<RuleSpec> {
    let keys = ["l[0].x", "l[1].x", "l[2].x", "n.l[0]", "n.x", "l[1]", "n.y", "not(l[1].x)", "str(l[0].x)"];
    let vals = [st("a"), st("b*"), st("*"), int(1)];
    let mut out = vec![];
    for k in keys {
        for v in &vals {
            out.push(RuleSpec::one(Body::Map(vec![e(k, v.clone())])));
            out.push(RuleSpec::one(Body::Map(vec![e(k, v.clone()), e("x", st("a"))])));
            out.push(RuleSpec::one(Body::Seq(vec![vec![e(k, v.clone())], vec![e("y", st("a"))]])));
        }
    }
    out.push(RuleSpec::one(Body::Map(vec![e("l", map(vec![e("x", st("a"))]))])));
    out.push(RuleSpec::one(Body::Map(vec![e("n", map(vec![e("l[0]", st("a"))]))])));
    out
}

/// Family 8: lists around the solver's 64-needle boundary (bitmap vs set counting).
pub fn wide_list(n: usize, insensitive: bool) -> Val {
    list(
        (0..n)
            .map(|i| {
                let t = format!("*k{:02}x*", i);
                st(&if insensitive { format!("i{}", t.to_uppercase().replace("*K", "*K")) } else { t })
            })
            .collect(),
    )
}
pub fn family_wide() -> Vec<RuleSpec> {
    let mut out = vec![];
    for n in [63usize, 64, 65, 70] {
        for ins in [false, true] {
            for k in ["f", "all(f)", "of(f, 2)", "of(f, 64)", "of(f, 0)"] {
                out.push(RuleSpec::one(Body::Map(vec![e(k, wide_list(n, ins))])));
            }
        }
    }
    out
}
/// documents for the wide lists: strings containing chosen subsets of the needles
pub fn wide_docs(n: usize) -> Vec<MObj> {
    let mk = |idx: Vec<usize>| {
        let t: String = idx.iter().map(|i| format!("k{:02}x-", i)).collect();
        MObj::new().with("f", s(&t))
    };
    vec![
        MObj::new(),
        mk(vec![]),
        mk(vec![0]),
        mk(vec![0, 1]),
        mk((0..n / 2).collect()),
        mk((n / 2..n).collect()),
        mk((0..n).collect()),
        mk((0..n.saturating_sub(1)).collect()),
        mk((1..n).collect()),
        mk(vec![n - 1, n - 2]),
        mk((0..64.min(n)).collect()),
        MObj::new().with("f", MVal::Int(1)),
        // the same needle more than once in the value: occurrences are not members
        mk(vec![0, 0]),
        mk(vec![0, 1, 0]),
        mk(vec![0, 0, 1]),
        mk(vec![1, 0, 0, 2, 0]),
        mk(std::iter::repeat(0).take(64).chain(0..n).collect()),
        mk(std::iter::repeat(0).take(64).chain(1..n).collect()),
        mk((0..n).chain(0..n).collect()),
        mk((0..n.saturating_sub(1)).chain(0..n.saturating_sub(1)).collect()),
    ]
}

/// The quick tier's universe: the full alphabets for everything but the (large) matrix family.
/// nested blocks that contain a quantified key, next to other nested blocks on the same container
/// field and joined by and/or/not: the shapes in which shake merges blocks on one field
pub fn family_nestedq() -> Vec<RuleSpec> {
    let lists: Vec<Val> = vec![
        list(vec![st("a*"), st("?b")]),
        list(vec![st("*b"), st("?^a"), st("b")]),
        list(vec![int(1), st("a")]),
        list(vec![st("a"), st("b")]),
    ];
    let qkeys = ["of(y, 1)", "of(y, 2)", "all(y)", "y", "of(x, 1)", "all(x)"];
    let a_bodies: Vec<Vec<Entry>> = vec![
        vec![e("n", map(vec![e("x", st("a"))]))],
        vec![e("n", map(vec![e("x", st("a"))])), e("g", st("x"))],
        vec![e("n", map(vec![e("y", st("?b"))]))],
        vec![e("f", st("a"))],
    ];
    let c_body = vec![e("n", map(vec![e("x", st("b*"))]))];
    let conds = ["A and B", "B and A", "A and B and C", "not (A and B)", "(A or C) and B", "A and not B"];
    let mut out = vec![];
    for q in qkeys {
        for l in &lists {
            let b_body = vec![e("n", map(vec![e(q, l.clone())]))];
            for a in &a_bodies {
                for c in conds {
                    let mut idents = vec![("A".to_string(), Body::Map(a.clone())), ("B".to_string(), Body::Map(b_body.clone()))];
                    if c.contains('C') {
                        idents.push(("C".to_string(), Body::Map(c_body.clone())));
                    }
                    out.push(RuleSpec { idents, cond: c.to_string() });
                }
            }
        }
    }
    out
}

pub fn universe_quick() -> Vec<RuleSpec> {
    let mut out = family_single(1);
    out.extend(family_bodies(1));
    out.extend(family_conditions(1));
    out.extend(family_regex(4));
    out.extend(family_matrix(0));
    out.extend(family_matrix(1).into_iter().step_by(13));
    out.extend(family_castconds(0));
    out.extend(family_paths(0));
    out.extend(family_wide());
    out.extend(family_nestedq());
    out
}

pub fn universe(level: u8) -> Vec<RuleSpec> {
    let mut out = family_single(level);
    out.extend(family_bodies(level));
    out.extend(family_conditions(level));
    out.extend(family_regex(if level == 0 { 3 } else { 4 }));
    out.extend(family_matrix(level));
    out.extend(family_castconds(level));
    out.extend(family_paths(level));
    out.extend(family_wide());
    out.extend(family_nestedq());
    out
}

/// field `h` etc. are plain slots; used by tests of the generator
pub fn demo_doc() -> MObj {
    MObj::new().with("f", s("a"))
}
