//! Evidence, violations, replays and the known-findings protocol.

use std::collections::BTreeMap;
use std::hash::{Hash, Hasher};
use std::time::Instant;

use serde_json::{json, Map, Value as J};

use crate::mdoc::{MObj, MVal};

pub const VERIF_DIR: &str = "/verif";

#[derive(Clone, Copy, PartialEq, Eq, Debug)]
pub enum Tier {
    Quick,
    Thorough,
}
impl Tier {
    pub fn name(&self) -> &'static str {
        match self {
            Tier::Quick => "quick",
            Tier::Thorough => "thorough",
        }
    }
    pub fn thorough(&self) -> bool {
        *self == Tier::Thorough
    }
}

/// `TV_VARIANT=sync` marks a child run of another build of the harness (tau-engine/sync).
pub fn variant() -> Option<String> {
    std::env::var("TV_VARIANT").ok().filter(|v| !v.is_empty())
}

/// Runs the same check in the harness built against `tau-engine/sync` (its own copy of
/// `Object::find`, of the `Document`/`Object`/`Array`/`AsValue` traits and of the std adapters).
/// The child's VIOLATION / KNOWN-FINDING lines are forwarded, its coverage is embedded in this
/// run's evidence under `sync_build`. Returns the child's verdict (0 / 1) or 2 on machinery error.
pub fn run_variant(rep: &mut Report, v: &str, exe: &str) -> i32 {
    let child = start_variant(&rep.id, rep.tier, v, exe);
    finish_variant(rep, v, exe, child)
}

/// Starts the variant build's run in the background (None when this process is itself a variant).
pub fn start_variant(id: &str, tier: Tier, v: &str, exe: &str) -> Option<std::io::Result<std::process::Child>> {
    if variant().is_some() {
        return None;
    }
    let ev = format!("{}/harness/variant-evidence/{}.{}.json", VERIF_DIR, id, v);
    let _ = std::fs::remove_file(&ev);
    Some(
        std::process::Command::new(exe)
            .arg(id)
            .arg(tier.name())
            .env("TV_VARIANT", v)
            .stdout(std::process::Stdio::piped())
            .stderr(std::process::Stdio::piped())
            .spawn(),
    )
}

pub fn finish_variant(rep: &mut Report, v: &str, exe: &str, child: Option<std::io::Result<std::process::Child>>) -> i32 {
    let child = match child {
        None => return 0,
        Some(c) => c,
    };
    let ev = format!("{}/harness/variant-evidence/{}.{}.json", VERIF_DIR, rep.id, v);
    let o = match child.and_then(|c| c.wait_with_output()) {
        Ok(o) => o,
        Err(e) => {
            eprintln!("machinery error: cannot run the {} build {}: {}", v, exe, e);
            return 2;
        }
    };
    let code = o.status.code().unwrap_or(2);
    let txt = String::from_utf8_lossy(&o.stdout).to_string();
    let mut viol = 0;
    for l in txt.lines() {
        if l.starts_with("VIOLATION ") {
            println!("{}", l);
            viol += 1;
        } else if l.starts_with("KNOWN-FINDING:") {
            println!("{} [{} build]", l, v);
        }
    }
    if code >= 2 || (code == 1) != (viol > 0) {
        eprintln!("machinery error: the {} build exited {} with {} violation lines\n{}", v, code, viol, String::from_utf8_lossy(&o.stderr));
        return 2;
    }
    let j: J = match std::fs::read_to_string(&ev).ok().and_then(|t| serde_json::from_str(&t).ok()) {
        Some(j) => j,
        None => {
            eprintln!("machinery error: the {} build wrote no evidence at {}", v, ev);
            return 2;
        }
    };
    if j.get("build_features").and_then(|b| b.get(v)).and_then(|b| b.as_bool()) != Some(true) {
        eprintln!("machinery error: {} is not a {} build", exe, v);
        return 2;
    }
    let mut m = Map::new();
    for k in ["states", "transitions", "traces_validated_against_impl", "evaluations", "distinct_nontrivial", "exhaustive", "counters"] {
        if let Some(x) = j.get("coverage").and_then(|c| c.get(k)) {
            m.insert(k.to_string(), x.clone());
        }
    }
    m.insert("violations".into(), json!(viol));
    m.insert("wall_s".into(), j.get("wall_s").cloned().unwrap_or(json!(0)));
    rep.extra.insert(format!("{}_build", v), J::Object(m));
    code
}

pub fn seed() -> u64 {
    std::env::var("VERIF_SEED")
        .ok()
        .and_then(|s| s.trim().parse::<i64>().ok())
        .map(|v| v as u64)
        .unwrap_or(1)
}

/// xorshift64* - the only randomness in the harness, always seeded from VERIF_SEED.
pub struct Rng(pub u64);
impl Rng {
    pub fn new(seed: u64) -> Self {
        Rng(seed.wrapping_mul(0x9E3779B97F4A7C15) | 1)
    }
    pub fn next(&mut self) -> u64 {
        let mut x = self.0;
        x ^= x >> 12;
        x ^= x << 25;
        x ^= x >> 27;
        self.0 = x;
        x.wrapping_mul(0x2545F4914F6CDD1D)
    }
    pub fn below(&mut self, n: usize) -> usize {
        (self.next() % (n as u64)) as usize
    }
}

pub fn stable_hash<T: Hash + ?Sized>(t: &T) -> u64 {
    // DefaultHasher::new() uses fixed keys, so this is stable across runs.
    #[allow(deprecated)]
    let mut h = std::collections::hash_map::DefaultHasher::new();
    t.hash(&mut h);
    h.finish()
}

#[derive(Clone, Debug)]
pub struct Violation {
    /// names the call site / kind of failure; the unit of known-finding matching
    pub signature: String,
    /// one line, human readable
    pub witness: String,
    /// self-contained replay case (see `tv --replay`)
    pub replay: J,
}

/// Per-shard counters; merged in index order.
#[derive(Default, Clone)]
pub struct Stats {
    pub states: u64,
    pub transitions: u64,
    pub traces: u64,
    pub evaluations: u64,
    pub nontrivial: u64,
    pub violations: Vec<Violation>,
    pub samples: Vec<J>,
    pub counters: BTreeMap<String, u64>,
}
impl Stats {
    pub fn merge(&mut self, o: Stats) {
        self.states += o.states;
        self.transitions += o.transitions;
        self.traces += o.traces;
        self.evaluations += o.evaluations;
        self.nontrivial += o.nontrivial;
        // keep the violation list bounded: at most 3 per signature
        for v in o.violations {
            self.push_violation(v);
        }
        for s in o.samples {
            if self.samples.len() < 6 {
                self.samples.push(s);
            }
        }
        for (k, v) in o.counters {
            *self.counters.entry(k).or_insert(0) += v;
        }
    }
    pub fn push_violation(&mut self, v: Violation) {
        *self
            .counters
            .entry(format!("violating_cases[{}]", v.signature))
            .or_insert(0) += 1;
        let n = self
            .violations
            .iter()
            .filter(|x| x.signature == v.signature)
            .count();
        if n < 2 {
            self.violations.push(v);
        }
    }
    pub fn count(&mut self, k: &str, n: u64) {
        *self.counters.entry(k.to_string()).or_insert(0) += n;
    }
    pub fn sample(&mut self, s: J) {
        if self.samples.len() < 6 {
            self.samples.push(s);
        }
    }
}

pub struct Report {
    pub id: String,
    pub tier: Tier,
    pub start: Instant,
    pub stats: Stats,
    pub rule: String,
    pub exhaustive: bool,
    pub extra: Map<String, J>,
    pub assumptions: Vec<String>,
}

#[derive(Default)]
pub struct Known {
    /// (property, signature) -> description
    pub findings: BTreeMap<(String, String), String>,
}

pub fn load_known() -> Known {
    let mut k = Known::default();
    let p = format!("{}/known_findings.json", VERIF_DIR);
    let txt = match std::fs::read_to_string(&p) {
        Ok(t) => t,
        Err(_) => return k,
    };
    let v: J = match serde_json::from_str(&txt) {
        Ok(v) => v,
        Err(e) => {
            eprintln!("machinery error: {} does not parse: {}", p, e);
            std::process::exit(2);
        }
    };
    if let Some(fs) = v.get("findings").and_then(|f| f.as_array()) {
        for f in fs {
            let prop = f.get("property").and_then(|x| x.as_str()).unwrap_or("");
            let sig = f.get("signature").and_then(|x| x.as_str()).unwrap_or("");
            let d = f.get("description").and_then(|x| x.as_str()).unwrap_or("");
            k.findings
                .insert((prop.to_string(), sig.to_string()), d.to_string());
        }
    }
    k
}

impl Report {
    pub fn new(id: &str, tier: Tier) -> Self {
        Report {
            id: id.to_string(),
            tier,
            start: Instant::now(),
            stats: Stats::default(),
            rule: String::new(),
            exhaustive: true,
            extra: Map::new(),
            assumptions: vec![],
        }
    }

    /// Writes evidence and replays, prints KNOWN-FINDING / VIOLATION lines, returns the exit code.
    pub fn finish(mut self) -> i32 {
        let known = load_known();
        let mut by_sig: BTreeMap<String, Vec<Violation>> = BTreeMap::new();
        for v in std::mem::take(&mut self.stats.violations) {
            by_sig.entry(v.signature.clone()).or_default().push(v);
        }
        let mut unknown = 0;
        let mut known_hit = vec![];
        let mut lines = vec![];
        for (sig, vs) in &by_sig {
            let cases = self
                .stats
                .counters
                .get(&format!("violating_cases[{}]", sig))
                .cloned()
                .unwrap_or(vs.len() as u64);
            if known.findings.contains_key(&(self.id.clone(), sig.clone())) {
                lines.push(format!(
                    "KNOWN-FINDING: property={} {} ({} cases) e.g. {}",
                    self.id, sig, cases, vs[0].witness
                ));
                known_hit.push(sig.clone());
            } else {
                unknown += 1;
                let dir = format!("{}/replays/{}", VERIF_DIR, self.id);
                let _ = std::fs::create_dir_all(&dir);
                let mut body = vs[0].replay.clone();
                if let Some(m) = body.as_object_mut() {
                    if let Some(v) = variant() {
                        m.insert("build_variant".into(), json!(v));
                    }
                    m.insert("property".into(), json!(self.id));
                    m.insert("signature".into(), json!(sig));
                    m.insert("witness".into(), json!(vs[0].witness));
                    m.insert("cases_with_this_signature".into(), json!(cases));
                }
                let txt = serde_json::to_string_pretty(&body).unwrap();
                let path = format!("{}/{:016x}.json", dir, stable_hash(&(sig, &txt)));
                if let Err(e) = std::fs::write(&path, txt) {
                    eprintln!("machinery error: cannot write {}: {}", path, e);
                    return 2;
                }
                let sig_shown = match variant() {
                    Some(v) => format!("[{} build] {}", v, sig),
                    None => sig.clone(),
                };
                lines.push(format!(
                    "VIOLATION property={} replay={} signature={:?} cases={} witness={}",
                    self.id, path, sig_shown, cases, vs[0].witness
                ));
            }
        }
        for l in &lines {
            println!("{}", l);
        }
        let wall = self.start.elapsed().as_secs_f64();
        let mut cov = Map::new();
        cov.insert("states".into(), json!(self.stats.states.max(1)));
        cov.insert("transitions".into(), json!(self.stats.transitions.max(1)));
        cov.insert(
            "traces_validated_against_impl".into(),
            json!(self.stats.traces),
        );
        cov.insert("evaluations".into(), json!(self.stats.evaluations.max(1)));
        cov.insert("distinct_nontrivial".into(), json!(self.stats.nontrivial));
        cov.insert("rule".into(), json!(self.rule));
        if self.stats.samples.is_empty() {
            self.stats.samples.push(json!("(no sample recorded)"));
        }
        cov.insert("samples".into(), J::Array(self.stats.samples.clone()));
        cov.insert("exhaustive".into(), json!(self.exhaustive));
        let mut counters = Map::new();
        for (k, v) in &self.stats.counters {
            counters.insert(k.clone(), json!(v));
        }
        cov.insert("counters".into(), J::Object(counters));
        cov.insert("known_findings_hit".into(), json!(known_hit));
        for (k, v) in self.extra {
            cov.insert(k, v);
        }
        let ev = json!({
            "property_id": self.id,
            "tier": self.tier.name(),
            "seed": seed() as i64,
            "level": "model_checking",
            "coverage": J::Object(cov),
            "assumptions": self.assumptions,
            "wall_s": wall,
            "violations": unknown,
            "build_features": {"sync": cfg!(feature = "sy"), "ignore_case": cfg!(feature = "ic")},
        });
        // a variant build (child of the main run) writes its evidence next to the binaries, never
        // into /verif/evidence; the parent embeds it (see `run_variant`)
        let (dir, path) = match variant() {
            Some(v) => {
                let dir = format!("{}/harness/variant-evidence", VERIF_DIR);
                let path = format!("{}/{}.{}.json", dir, self.id, v);
                (dir, path)
            }
            None => {
                let dir = format!("{}/evidence", VERIF_DIR);
                let path = format!("{}/{}.json", dir, self.id);
                (dir, path)
            }
        };
        let _ = std::fs::create_dir_all(&dir);
        if let Err(e) = std::fs::write(&path, serde_json::to_string_pretty(&ev).unwrap()) {
            eprintln!("machinery error: cannot write {}: {}", path, e);
            return 2;
        }
        println!(
            "{} {}: states={} transitions={} traces={} evaluations={} nontrivial={} exhaustive={} unknown_signatures={} known_signatures={} wall={:.1}s",
            self.id,
            self.tier.name(),
            self.stats.states,
            self.stats.transitions,
            self.stats.traces,
            self.stats.evaluations,
            self.stats.nontrivial,
            self.exhaustive,
            unknown,
            known_hit.len(),
            wall
        );
        if unknown > 0 {
            1
        } else {
            0
        }
    }
}

// ---------------------------------------------------------------------------------------------
// tagged JSON for model documents (loss free: keeps Int/UInt/Float/NaN)

pub fn mval_to_json(v: &MVal) -> J {
    match v {
        MVal::Null => J::Null,
        MVal::Bool(b) => J::Bool(*b),
        MVal::Int(i) => json!({"i": i.to_string()}),
        MVal::UInt(u) => json!({"u": u.to_string()}),
        MVal::Float(f) => json!({"f": format!("{:?}", f)}),
        MVal::Str(s) => J::String(s.clone()),
        MVal::Arr(a) => J::Array(a.iter().map(mval_to_json).collect()),
        MVal::Obj(o) => mobj_to_json(o),
    }
}
pub fn mobj_to_json(o: &MObj) -> J {
    json!({"o": o.0.iter().map(|(k, v)| json!([k, mval_to_json(v)])).collect::<Vec<_>>()})
}
pub fn mval_from_json(j: &J) -> Option<MVal> {
    Some(match j {
        J::Null => MVal::Null,
        J::Bool(b) => MVal::Bool(*b),
        J::String(s) => MVal::Str(s.clone()),
        J::Array(a) => MVal::Arr(a.iter().map(mval_from_json).collect::<Option<Vec<_>>>()?),
        J::Object(m) => {
            if let Some(x) = m.get("i") {
                MVal::Int(x.as_str()?.parse().ok()?)
            } else if let Some(x) = m.get("u") {
                MVal::UInt(x.as_str()?.parse().ok()?)
            } else if let Some(x) = m.get("f") {
                let t = x.as_str()?;
                MVal::Float(match t {
                    "NaN" => f64::NAN,
                    "inf" => f64::INFINITY,
                    "-inf" => f64::NEG_INFINITY,
                    _ => t.parse().ok()?,
                })
            } else if m.contains_key("o") {
                MVal::Obj(mobj_from_json(j)?)
            } else {
                return None;
            }
        }
        J::Number(_) => return None,
    })
}
pub fn mobj_from_json(j: &J) -> Option<MObj> {
    let a = j.get("o")?.as_array()?;
    let mut o = MObj::new();
    for kv in a {
        let kv = kv.as_array()?;
        o.0.push((kv.first()?.as_str()?.to_string(), mval_from_json(kv.get(1)?)?));
    }
    Some(o)
}

/// Runs `f`, converting a panic into Err(message). The default panic hook is silenced globally by
/// `quiet_panics()` so that expected panics of the subject do not flood stderr.
pub fn catch<T>(f: impl FnOnce() -> T) -> Result<T, String> {
    match std::panic::catch_unwind(std::panic::AssertUnwindSafe(f)) {
        Ok(v) => Ok(v),
        Err(e) => {
            let msg = if let Some(s) = e.downcast_ref::<&str>() {
                s.to_string()
            } else if let Some(s) = e.downcast_ref::<String>() {
                s.clone()
            } else {
                "panic".to_string()
            };
            Err(msg)
        }
    }
}

pub fn quiet_panics() {
    std::panic::set_hook(Box::new(|_| {}));
}
