//! C12: loading, optimising and matching are deterministic and pure.
//! Four parts: hash orders, histories, schedules (shuttle), processes.

use std::collections::{BTreeMap, BTreeSet, HashSet};
use std::sync::atomic::{AtomicUsize, Ordering};
use std::sync::{Arc, Mutex};

use rayon::prelude::*;
use serde_json::json;
use shuttle::scheduler::{Schedule, Scheduler, Task, TaskId};
use tau_engine::{Document, Object, Rule, Value};

use crate::c01::{self, one_line};
use crate::eng;
use crate::gen::{self, RuleSpec};
use crate::mdoc::MObj;
use crate::report::{stable_hash, Report, Stats, Tier, Violation};

// ---------------------------------------------------------------------------------------------
// part 1: hash orders + repeated calls

fn part1(spec: &RuleSpec, level: u8) -> Stats {
    let mut st = Stats::default();
    let yaml = spec.yaml();
    let rule = match eng::load(&yaml) {
        Ok(r) => r,
        Err(_) => return st,
    };
    // loading twice gives the same tree
    if let Ok(r2) = eng::load(&yaml) {
        st.transitions += 1;
        if eng::canon(&r2) != eng::canon(&rule) {
            st.push_violation(Violation {
                signature: "load-twice-differs".into(),
                witness: format!("{} vs {} ; rule {}", eng::canon(&rule), eng::canon(&r2), one_line(&yaml)),
                replay: json!({"kind":"load","rule_yaml":yaml}),
            });
        }
    }
    let ex = c01::explore_rule(&rule, 720);
    st.transitions += ex.optimise_calls;
    let docs = gen::docs_for(spec, level, 40);
    let mut points = 0u64;
    for (sw, orders, distinct) in &ex.per_sw {
        st.states += *orders;
        st.traces += *orders;
        st.evaluations += *orders;
        if *orders > 1 {
            points += 1;
        }
        if *distinct > 1 {
            // find two variants of this switch set to show
            let mut outs: Vec<String> = vec![];
            eng::explore(720, |prefix| {
                let s = crate::optrep::optimise_replica(&ex.base, *sw, prefix);
                if s.panic.is_none() {
                    let c = s.stages.last().unwrap().1.canon();
                    if !outs.contains(&c) {
                        outs.push(c);
                    }
                }
                s.trace
            });
            st.push_violation(Violation {
                signature: "optimised-expression-depends-on-map-iteration-order".into(),
                witness: format!(
                    "optimise({}) prints {} different trees over {} iteration orders, e.g. {} | versus | {} ; rule {}",
                    eng::sw_name(*sw),
                    distinct,
                    orders,
                    outs.first().cloned().unwrap_or_default(),
                    outs.get(1).cloned().unwrap_or_default(),
                    one_line(&yaml)
                ),
                replay: json!({"kind":"optimise","rule_yaml":yaml,"sw_bits":sw,"hash_order_choices":[]}),
            });
        }
    }
    if points > 0 {
        st.count("switchsets_with_order_choice_points", points);
    }
    // repeated Rule::optimise calls (real std maps for the identifiers) print the same and decide the same
    for sw in [0b1111u8, 0b1110, 0b1010, 0b0010] {
        let mut first: Option<(String, Vec<bool>)> = None;
        for _rep in 0..3 {
            if let Ok((r, _)) = eng::optimise_with(&rule, sw, &[]) {
                let c = eng::canon(&r);
                let v: Vec<bool> = docs.iter().map(|d| eng::matches(&r, d) == Ok(true)).collect();
                st.transitions += 1 + docs.len() as u64;
                st.evaluations += 1;
                match &first {
                    None => first = Some((c, v)),
                    Some((c0, v0)) => {
                        if *c0 != c || *v0 != v {
                            st.push_violation(Violation {
                                signature: "repeated-optimise-differs".into(),
                                witness: format!("optimise({}) twice: {} vs {} ; rule {}", eng::sw_name(sw), c0, c, one_line(&yaml)),
                                replay: json!({"kind":"optimise","rule_yaml":yaml,"sw_bits":sw,"hash_order_choices":[]}),
                            });
                        }
                    }
                }
            }
        }
    }
    // every iteration order of the rule's own `identifiers` map (a std HashMap the optimiser driver
    // walks): the optimised rule must print and decide the same whichever order the map yields
    let n_ids = rule.detection.identifiers.len();
    if (2..=4).contains(&n_ids) {
        let perms = crate::c17::permutations(n_ids);
        for sw in [0b1111u8, 0b1110, 0b1010, 0b0010, 0b0100, 0b1000] {
            let mut first: Option<(String, Vec<i8>, Vec<usize>)> = None;
            for p in &perms {
                let r = match eng::with_identifier_order(&rule, p) {
                    Some(r) => r,
                    None => {
                        st.count("identifier_orders_not_realised", 1);
                        continue;
                    }
                };
                let o = match eng::optimise_with(&r, sw, &[]) {
                    Ok((o, _)) => o,
                    Err(_) => continue,
                };
                let c = eng::canon(&o);
                let v: Vec<i8> = docs.iter().map(|d| eng::val3(&o, d).unwrap_or(2)).collect();
                st.states += 1;
                st.traces += 1;
                st.transitions += 1 + docs.len() as u64;
                st.evaluations += 1;
                st.count("identifier_map_orders_explored", 1);
                match &first {
                    None => first = Some((c, v, p.clone())),
                    Some((c0, v0, p0)) => {
                        if *c0 != c || *v0 != v {
                            let i = (0..docs.len()).find(|i| v0[*i] != v[*i]);
                            st.push_violation(Violation {
                                signature: format!("optimised-rule-depends-on-identifier-map-order:{}", if *c0 != c { "prints-differently" } else { "decides-differently" }),
                                witness: format!(
                                    "optimise({}) with the identifiers iterating as {:?} gives {} ; as {:?} gives {} {}; rule {}",
                                    eng::sw_name(sw), p0, c0, p, c,
                                    i.map(|i| format!("(on {}: {} vs {}) ", docs[i].show(), eng::v3name(v0[i]), eng::v3name(v[i]))).unwrap_or_default(),
                                    one_line(&yaml)
                                ),
                                replay: json!({"kind":"identifier-order","rule_yaml":yaml,"sw_bits":sw,"order_a":p0,"order_b":p,"document":i.map(|i| crate::report::mobj_to_json(&docs[i]))}),
                            });
                        }
                    }
                }
            }
        }
    }
    st.nontrivial += 1;
    st
}

/// rules whose identifiers differ only in something a careless equality could ignore (the case
/// flag, the cast, the pattern kind): any sharing or caching between identifiers shows up as an
/// order dependence
pub fn twin_specs() -> Vec<RuleSpec> {
    use crate::gen::{e, int, list, map, st, Body};
    let pairs: Vec<(Entry2, Entry2)> = vec![
        (e("f", list(vec![st("a*"), st("*b")])), e("f", list(vec![st("ia*"), st("i*b")]))),
        (e("f", list(vec![st("ab"), st("b")])), e("f", list(vec![st("iab"), st("ib")]))),
        (e("f", st("?a+")), e("f", st("i?a+"))),
        (e("f", list(vec![st("?^a"), st("?b$")])), e("f", list(vec![st("i?^a"), st("i?b$")]))),
        (e("f", st("ab")), e("f", st("iab"))),
        (e("f", st("1")), e("f", int(1))),
        (e("f", st("1")), e("str(f)", st("1"))),
        (e("n", map(vec![e("x", st("a*"))])), e("n", map(vec![e("x", st("ia*"))]))),
        (e("all(f)", list(vec![st("*a*"), st("*b*")])), e("all(f)", list(vec![st("i*a*"), st("i*b*")]))),
    ];
    let mut out = vec![];
    for (a, b) in pairs {
        for cond in ["A or B", "A and not B", "B and not A", "not A or not B"] {
            out.push(RuleSpec {
                idents: vec![("A".into(), Body::Map(vec![a.clone()])), ("B".into(), Body::Map(vec![b.clone()]))],
                cond: cond.into(),
            });
        }
        out.push(RuleSpec {
            idents: vec![
                ("A".into(), Body::Map(vec![a.clone()])),
                ("B".into(), Body::Map(vec![b.clone()])),
                ("C".into(), Body::Map(vec![e("g", st("x"))])),
            ],
            cond: "(A or C) and not B".into(),
        });
    }
    out
}
type Entry2 = crate::gen::Entry;

// ---------------------------------------------------------------------------------------------
// part 2: histories - explicit-state search over document sequences on one shared rule

fn observe(rule: &Rule, probes: &[MObj]) -> String {
    let v: String = probes
        .iter()
        .map(|d| match eng::matches(rule, d) {
            Ok(true) => '1',
            Ok(false) => '0',
            Err(_) => 'P',
        })
        .collect();
    format!("{}#{}", v, eng::canon(rule))
}

fn part2(spec: &RuleSpec, depth: usize) -> Stats {
    part2_docs(&spec.yaml(), gen::docs_for(spec, 1, 64), depth, 4)
}

/// numeric values whose renderings / conversions are easy to confuse (equal as f64, different as
/// text or as integers), under str() casts and numeric comparisons
fn value_history_cases() -> Vec<(String, Vec<MObj>)> {
    use crate::mdoc::{arr, MVal};
    let vals: Vec<MVal> = vec![
        MVal::Float(0.0),
        MVal::Float(-0.0),
        MVal::Int(0),
        MVal::Int(i64::MAX),
        MVal::UInt(i64::MAX as u64 + 1),
        MVal::UInt(u64::MAX),
        MVal::UInt(u64::MAX - 1),
        MVal::Float(9007199254740992.0),
        MVal::Int(9007199254740993),
        arr(vec![MVal::Float(0.0), MVal::Float(-0.0)]),
        arr(vec![MVal::Float(-0.0), MVal::Float(0.0)]),
        MVal::Float(1.5),
    ];
    let docs: Vec<MObj> = vals.iter().map(|v| MObj::new().with("f", v.clone()).with("g", MVal::Int(0))).collect();
    let w = |body: &str, cond: &str| format!("detection:\n  A: {}\n  condition: {}\ntrue_positives: []\ntrue_negatives: []\n", body, cond);
    vec![
        (w("{str(f): '0'}", "A"), docs.clone()),
        (w("{str(f): '-0'}", "A"), docs.clone()),
        (w("{str(f): ['9223372036854775807', '18446744073709551615', '9007199254740993']}", "A"), docs.clone()),
        (w("{str(f): ['*8', '-*']}", "not A"), docs.clone()),
        (w("{g: 0}", "A and str(f) == str(g)"), docs.clone()),
        (w("{f: ['>=9223372036854775807', '0']}", "A"), docs.clone()),
        (w("{int(f): '<1'}", "A or flt(f) >= 9007199254740993"), docs),
    ]
}

fn part2_docs(yaml: &str, all_docs: Vec<MObj>, depth: usize, alpha_cap: usize) -> Stats {
    let mut st = Stats::default();
    let yaml = yaml.to_string();
    let loaded = match eng::load(&yaml) {
        Ok(r) => r,
        Err(_) => return st,
    };
    if all_docs.len() < 2 {
        return st;
    }
    for sw in [0u8, 0b1111] {
        let rule = match eng::optimise_with(&loaded, sw, &[]) {
            Ok((r, _)) => r,
            Err(_) => continue,
        };
        // alphabet: 4 documents with differing verdicts when possible
        let mut alpha: Vec<MObj> = vec![];
        let mut seen = HashSet::new();
        for d in &all_docs {
            let v = eng::matches(&rule, d);
            if seen.insert(format!("{:?}", v)) {
                alpha.push(d.clone());
            }
        }
        for d in all_docs.iter().rev() {
            if alpha.len() >= alpha_cap {
                break;
            }
            if !alpha.contains(d) {
                alpha.push(d.clone());
            }
        }
        let probes: Vec<MObj> = all_docs.iter().step_by((all_docs.len() / 8).max(1)).take(8).cloned().collect();
        // fresh verdict of every alphabet document: a fresh rule on a fresh OS thread, so that
        // neither the rule nor thread-local state has seen any document before
        let fresh: Vec<Result<bool, String>> = alpha
            .iter()
            .map(|d| {
                let y = yaml.clone();
                let d = d.clone();
                std::thread::spawn(move || {
                    let r = eng::load(&y).ok().and_then(|r| eng::optimise_with(&r, sw, &[]).ok()).map(|x| x.0);
                    match r {
                        Some(r) => eng::matches(&r, &d),
                        None => Err("load".into()),
                    }
                })
                .join()
                .unwrap_or_else(|_| Err("thread".into()))
            })
            .collect();
        let initial = observe(&rule, &probes);
        let mut states: BTreeSet<String> = BTreeSet::new();
        states.insert(initial.clone());
        // all sequences up to `depth` over the alphabet, on the one shared rule
        let n = alpha.len();
        let mut idx = vec![0usize; depth];
        'seq: loop {
            for &i in idx.iter() {
                let got = eng::matches(&rule, &alpha[i]);
                st.transitions += 1;
                if got != fresh[i] {
                    st.push_violation(Violation {
                        signature: "verdict-depends-on-earlier-documents".into(),
                        witness: format!(
                            "after history {:?} matches({}) = {:?} but a fresh rule gives {:?} ; rule {}",
                            idx,
                            alpha[i].show(),
                            got,
                            fresh[i],
                            one_line(&yaml)
                        ),
                        replay: json!({"kind":"history","rule_yaml":yaml,"sw_bits":sw,"documents":alpha.iter().map(crate::report::mobj_to_json).collect::<Vec<_>>(),"sequence":idx}),
                    });
                }
            }
            let o = observe(&rule, &probes);
            st.evaluations += 1;
            st.traces += 1;
            if states.insert(o.clone()) {
                st.push_violation(Violation {
                    signature: "matching-changes-the-rule's-observable-state".into(),
                    witness: format!("after history {:?} the rule observes as {} instead of {} ; rule {}", idx, o, initial, one_line(&yaml)),
                    replay: json!({"kind":"history","rule_yaml":yaml,"sw_bits":sw,"documents":alpha.iter().map(crate::report::mobj_to_json).collect::<Vec<_>>(),"sequence":idx}),
                });
            }
            let mut j = 0;
            loop {
                if j == depth {
                    break 'seq;
                }
                idx[j] += 1;
                if idx[j] < n {
                    break;
                }
                idx[j] = 0;
                j += 1;
            }
        }
        st.states += states.len() as u64;
        st.count("history_search_states", states.len() as u64);
    }
    st.nontrivial += 1;
    st
}

/// part 2b: histories over the *API*, not only over documents. Every operation below is
/// specified to be pure with respect to the shared rule value; after any sequence of them the
/// rule must observe exactly as before, and every call must answer as it did the first time.
pub const API_OPS: [&str; 9] = [
    "matches(d0)", "matches(d1)", "matches(d2)", "validate()", "clone().optimise(all) + matches", "clone().optimise(shake+rewrite) + matches",
    "serialise", "load the same text again + matches", "load another rule + matches",
];
const OTHER_RULE: &str = "detection:\n  A: {f: ['ia*', 'i*b', '?^A'], g: ['x', 'ix']}\n  B: {f: ['a*', '*b']}\n  condition: A or not B\ntrue_positives: []\ntrue_negatives: []\n";

fn api_op(rule: &Rule, yaml: &str, docs: &[MObj], op: u8) -> String {
    match op {
        0..=2 => format!("{:?}", eng::matches(rule, &docs[(op as usize).min(docs.len() - 1)])),
        3 => format!("{:?}", crate::report::catch(|| rule.validate().map_err(|e| e.to_string()))),
        4 | 5 => {
            let sw = if op == 4 { 0b1111 } else { 0b0110 };
            match eng::optimise_with(rule, sw, &[]) {
                Ok((o, _)) => format!("{}#{:?}", eng::canon(&o), eng::matches(&o, &docs[0])),
                Err(p) => format!("PANIC {}", p),
            }
        }
        // identifiers are a HashMap in the serialised struct, so their order in the text is not
        // part of any stated property: compare the text as a sorted set of lines
        6 => format!("{:?}", crate::report::catch(|| serde_yaml::to_string(rule).map_err(|e| e.to_string()).map(|t| {
            let mut l: Vec<&str> = t.lines().collect();
            l.sort();
            l.join("\n")
        }))),
        7 => match eng::load(yaml) {
            Ok(r) => format!("{}#{:?}", eng::canon(&r), eng::matches(&r, &docs[0])),
            Err(_) => "load-error".into(),
        },
        _ => match eng::load(OTHER_RULE) {
            Ok(r) => {
                let o = eng::optimise_with(&r, 0b1111, &[]).map(|x| x.0).unwrap_or(r);
                format!("{}#{:?}", eng::canon(&o), docs.iter().map(|d| eng::matches(&o, d)).collect::<Vec<_>>())
            }
            Err(_) => "load-error".into(),
        },
    }
}

fn part2_api(spec: &RuleSpec, depth: usize) -> Stats {
    let mut st = Stats::default();
    let yaml = spec.yaml();
    let loaded = match eng::load(&yaml) {
        Ok(r) => r,
        Err(_) => return st,
    };
    let all_docs = gen::docs_for(spec, 1, 64);
    if all_docs.is_empty() {
        return st;
    }
    for sw in [0u8, 0b1111] {
        let rule = match eng::optimise_with(&loaded, sw, &[]) {
            Ok((r, _)) => r,
            Err(_) => continue,
        };
        // three documents with differing verdicts when possible
        let mut docs: Vec<MObj> = vec![];
        let mut seen = HashSet::new();
        for d in &all_docs {
            if seen.insert(format!("{:?}", eng::matches(&rule, d))) {
                docs.push(d.clone());
            }
        }
        for d in all_docs.iter().rev() {
            if docs.len() >= 3 {
                break;
            }
            if !docs.contains(d) {
                docs.push(d.clone());
            }
        }
        while docs.len() < 3 {
            docs.push(docs[0].clone());
        }
        let probes: Vec<MObj> = all_docs.iter().step_by((all_docs.len() / 8).max(1)).take(8).cloned().collect();
        // reference answers: each operation on a fresh copy of the rule, on a fresh OS thread
        let nops = API_OPS.len() as u8;
        let reference: Vec<String> = (0..nops)
            .map(|op| {
                let (y, ds) = (yaml.clone(), docs.clone());
                std::thread::spawn(move || {
                    let r = eng::load(&y).ok().and_then(|r| eng::optimise_with(&r, sw, &[]).ok()).map(|x| x.0);
                    r.map(|r| api_op(&r, &y, &ds, op)).unwrap_or_else(|| "load".into())
                })
                .join()
                .unwrap_or_else(|_| "thread".into())
            })
            .collect();
        let initial = observe(&rule, &probes);
        let mut states: BTreeSet<String> = BTreeSet::new();
        states.insert(initial.clone());
        for len in 1..=depth {
            let total = (nops as u64).pow(len as u32);
            for i in 0..total {
                let mut m = i;
                let mut seq = vec![0u8; len];
                for o in seq.iter_mut() {
                    *o = (m % nops as u64) as u8;
                    m /= nops as u64;
                }
                for op in &seq {
                    let got = api_op(&rule, &yaml, &docs, *op);
                    st.transitions += 1;
                    if got != reference[*op as usize] {
                        let names: Vec<&str> = seq.iter().map(|o| API_OPS[*o as usize]).collect();
                        st.push_violation(Violation {
                            signature: format!("result-of-{}-depends-on-earlier-calls", API_OPS[*op as usize].split('(').next().unwrap_or("op").split(' ').next().unwrap_or("op")),
                            witness: format!("within the call sequence {:?} on one rule value, {} answered {} ; on a fresh rule it answers {} ; rule {}", names, API_OPS[*op as usize], got.chars().take(200).collect::<String>(), reference[*op as usize].chars().take(200).collect::<String>(), one_line(&yaml)),
                            replay: json!({"kind":"api-history","rule_yaml":yaml,"sw_bits":sw,"documents":docs.iter().map(crate::report::mobj_to_json).collect::<Vec<_>>(),"ops":seq,"op_names":names}),
                        });
                    }
                }
                let o = observe(&rule, &probes);
                st.evaluations += 1;
                st.traces += 1;
                if states.insert(o.clone()) {
                    let names: Vec<&str> = seq.iter().map(|o| API_OPS[*o as usize]).collect();
                    st.push_violation(Violation {
                        signature: "api-calls-change-the-rule's-observable-state".into(),
                        witness: format!("after the call sequence {:?} the rule observes as {} instead of {} ; rule {}", names, o, initial, one_line(&yaml)),
                        replay: json!({"kind":"api-history","rule_yaml":yaml,"sw_bits":sw,"documents":docs.iter().map(crate::report::mobj_to_json).collect::<Vec<_>>(),"ops":seq,"op_names":names}),
                    });
                }
            }
        }
        st.states += states.len() as u64;
        st.count("api_history_sequences", (1..=depth).map(|l| (nops as u64).pow(l as u32)).sum());
    }
    st.nontrivial += 1;
    st
}

/// part 2e: histories of *loads* on one thread. Loading is a pure function of the text, so the
/// outcome of loading a text (the printed rule and a verdict, or the error message) must not depend
/// on which texts - accepted or rejected - were loaded on the same thread before. The alphabet has
/// rejected texts of several kinds (an error deep inside brackets, an unknown identifier, a bad
/// token, invalid YAML, a non-predicate operand) and accepted texts at the documented nesting bound
/// (63 nested parentheses / negations), so that a guard or a counter that is not restored on an
/// error path shows after one failed load.
pub fn load_history_texts() -> Vec<(&'static str, String)> {
    let rule = |c: &str| format!("detection:\n  A: {{f: 'a*'}}\n  B: {{g: x}}\n  C: {{n: {{x: a}}}}\n  condition: {}\ntrue_positives: []\ntrue_negatives: []\n", c);
    let deep_ok = format!("{}A{}", "(".repeat(63), ")".repeat(63));
    let deep_not = format!("{}A", "not ".repeat(63));
    let deep_mixed = format!("{}A and B{} or C", "(not (".repeat(31), "))".repeat(31));
    vec![
        ("ok: (A and B) or (not C)", rule("(A and B) or (not C)")),
        ("ok: 63 nested parentheses", rule(&deep_ok)),
        ("ok: 63 nested nots", rule(&deep_not)),
        ("ok: 31 x (not ( .. )) or C", rule(&deep_mixed)),
        ("ok: all(A) and of(B, 1) and int(f) == 1", rule("all(A) and of(B, 1) and int(f) == 1")),
        ("rejected: (A and (B or ))", rule("(A and (B or ))")),
        ("rejected: ((((A and ) and B) and C) and A)", rule("((((A and ) and B) and C) and A)")),
        ("rejected: not (not (not (X)))", rule("not (not (not (X)))")),
        ("rejected: (A and 1)", rule("(A and 1)")),
        ("rejected: all((A or", rule("all((A or")),
        ("rejected: 40 open parentheses then an error", rule(&format!("{}A and and{}", "(".repeat(40), ")".repeat(40)))),
        ("rejected: invalid yaml", "detection: [\n  condition: {".to_string()),
        ("rejected: identifier is a scalar", "detection:\n  A: 1\n  condition: (A)\ntrue_positives: []\ntrue_negatives: []\n".to_string()),
    ]
}

fn load_outcome(text: &str) -> String {
    let d0 = MObj::new().with("f", crate::mdoc::s("ab")).with("g", crate::mdoc::s("x"));
    let d1 = MObj::new().with("n", crate::mdoc::obj(vec![("x", crate::mdoc::s("b"))]));
    match crate::report::catch(|| Rule::from_str(text)) {
        Ok(Ok(r)) => format!("loaded {} {:?} {:?}", eng::canon(&r).len(), eng::matches(&r, &d0), eng::matches(&r, &d1)),
        Ok(Err(e)) => format!("error {}", e),
        Err(p) => format!("PANIC {}", p),
    }
}

/// re-executes one recorded load history on a fresh thread (used by --replay)
pub fn replay_load_history(ops: &[u8]) {
    let texts = load_history_texts();
    let ops = ops.to_vec();
    let _ = std::thread::Builder::new()
        .stack_size(8 << 20)
        .spawn(move || {
            for op in ops {
                let (name, text) = &texts[op as usize % texts.len()];
                let t2 = text.clone();
                let fresh = std::thread::Builder::new().stack_size(8 << 20).spawn(move || load_outcome(&t2)).unwrap().join().unwrap_or_default();
                println!("load [{}]\n   -> {}\n   first thing on a fresh thread: {}", name, load_outcome(text), fresh);
            }
        })
        .unwrap()
        .join();
}

pub fn part2_loads(depth: usize) -> Stats {
    let texts = load_history_texts();
    let n = texts.len() as u64;
    // reference: each text loaded first thing on a fresh OS thread
    let reference: Vec<String> = texts
        .iter()
        .map(|(_, t)| {
            let t = t.clone();
            std::thread::Builder::new().stack_size(8 << 20).spawn(move || load_outcome(&t)).unwrap().join().unwrap_or_else(|_| "thread".into())
        })
        .collect();
    let mut seqs: Vec<Vec<u8>> = vec![];
    for len in 1..=depth {
        for i in 0..n.pow(len as u32) {
            let mut m = i;
            let mut seq = vec![0u8; len];
            for o in seq.iter_mut() {
                *o = (m % n) as u8;
                m /= n;
            }
            seqs.push(seq);
        }
    }
    let parts: Vec<Stats> = seqs
        .par_chunks(64)
        .map(|chunk| {
            let mut st = Stats::default();
            for seq in chunk {
                let (tx, rf, sq) = (texts.clone(), reference.clone(), seq.clone());
                // every sequence on its own fresh OS thread: thread-local state starts empty
                let bad = std::thread::Builder::new()
                    .stack_size(8 << 20)
                    .spawn(move || {
                        for (k, op) in sq.iter().enumerate() {
                            let got = load_outcome(&tx[*op as usize].1);
                            if got != rf[*op as usize] {
                                return Some((k, got));
                            }
                        }
                        None
                    })
                    .unwrap()
                    .join()
                    .unwrap_or(Some((0, "thread died".into())));
                st.transitions += seq.len() as u64;
                st.evaluations += 1;
                st.traces += 1;
                if let Some((k, got)) = bad {
                    let names: Vec<&str> = seq.iter().map(|o| texts[*o as usize].0).collect();
                    let op = seq[k] as usize;
                    st.push_violation(Violation {
                        signature: format!("outcome-of-loading-a-text-depends-on-earlier-loads-on-the-thread:{}", if reference[op].starts_with("loaded") { "accepted-text" } else { "rejected-text" }),
                        witness: format!("after loading {:?} on one thread, loading [{}] gives {} ; first thing on a fresh thread it gives {}", &names[..k], names[k], got.chars().take(160).collect::<String>(), reference[op].chars().take(160).collect::<String>()),
                        replay: json!({"kind":"load-history","ops":seq,"op_names":names}),
                    });
                }
            }
            st
        })
        .collect();
    let mut st = Stats::default();
    for p in parts {
        st.merge(p);
    }
    st.states += reference.iter().collect::<BTreeSet<_>>().len() as u64;
    st.count("load_history_sequences", seqs.len() as u64);
    st.count("load_history_texts_accepted", reference.iter().filter(|r| r.starts_with("loaded")).count() as u64);
    st.count("load_history_texts_rejected", reference.iter().filter(|r| r.starts_with("error")).count() as u64);
    st
}

/// re-executes one recorded API history (used by --replay)
pub fn replay_api_history(yaml: &str, sw: u8, docs: &[MObj], ops: &[u8]) {
    let rule = match eng::load(yaml).ok().and_then(|r| eng::optimise_with(&r, sw, &[]).ok()) {
        Some((r, _)) => r,
        None => {
            println!("rule does not load");
            return;
        }
    };
    for op in ops {
        let fresh = eng::load(yaml).ok().and_then(|r| eng::optimise_with(&r, sw, &[]).ok()).map(|x| api_op(&x.0, yaml, docs, *op)).unwrap_or_default();
        let got = api_op(&rule, yaml, docs, *op);
        println!("{:45} -> {}\n{:45}    {}", API_OPS[*op as usize], got, "   (a fresh rule answers)", fresh);
    }
}

/// part 2c: every ordered pair (thorough: triple) of optimise() calls with different switch sets on
/// one thread: what the last call returns must not depend on the calls before it
fn part2c(yaml: &str, docs: &[MObj], depth: usize) -> Stats {
    let mut st = Stats::default();
    if eng::load(yaml).is_err() {
        return st;
    }
    let result = |r: &Rule, sw: u8| -> String {
        match eng::optimise_with(r, sw, &[]) {
            Ok((o, _)) => format!(
                "{}#{}",
                eng::canon(&o),
                docs.iter().map(|d| match eng::matches(&o, d) { Ok(true) => '1', Ok(false) => '0', Err(_) => 'P' }).collect::<String>()
            ),
            Err(p) => format!("PANIC {}", p),
        }
    };
    let on_fresh_thread = |seq: Vec<u8>| -> String {
        std::thread::scope(|sc| {
            sc.spawn(|| {
                let r = match eng::load(yaml) {
                    Ok(r) => r,
                    Err(_) => return "load".to_string(),
                };
                let mut last = String::new();
                for sw in &seq {
                    last = result(&r, *sw);
                }
                last
            })
            .join()
            .unwrap_or_else(|_| "thread".into())
        })
    };
    let reference: Vec<String> = (0u8..16).map(|sw| on_fresh_thread(vec![sw])).collect();
    let mut distinct = HashSet::new();
    for r in &reference {
        distinct.insert(r.clone());
    }
    let total = 16u32.pow(depth as u32);
    for i in 0..total {
        let seq: Vec<u8> = (0..depth).map(|k| ((i >> (4 * k)) & 15) as u8).collect();
        let got = on_fresh_thread(seq.clone());
        st.states += 1;
        st.traces += 1;
        st.evaluations += 1;
        st.transitions += depth as u64;
        let last = *seq.last().unwrap() as usize;
        if got != reference[last] {
            let names: Vec<String> = seq.iter().map(|s| eng::sw_name(*s)).collect();
            st.push_violation(Violation {
                signature: "optimise-result-depends-on-earlier-optimise-calls-of-the-thread".into(),
                witness: format!("after optimise calls {:?} on one thread the last one gives {} ; alone on a fresh thread it gives {} ; rule {}", names, got.chars().take(220).collect::<String>(), reference[last].chars().take(220).collect::<String>(), one_line(yaml)),
                replay: json!({"kind":"optimise-sequence","rule_yaml":yaml,"switch_sequence":seq,"documents":docs.iter().map(crate::report::mobj_to_json).collect::<Vec<_>>()}),
            });
        }
    }
    st.count("optimise_sequences", total as u64);
    if distinct.len() > 1 {
        st.nontrivial += 1;
    }
    st
}

/// rules for part 2c: quantified keys over nested blocks, blocks that shake reorders, or-groups
/// that become matrices - the shapes in which one pass consumes what another produced
fn rich_rules() -> Vec<String> {
    let w = |body: &str, cond: &str| format!("detection:\n{}\n  condition: {}\ntrue_positives: []\ntrue_negatives: []\n", body, cond);
    vec![
        w("  A:\n    all(n): [{x: ['b*', 'a'], y: b}, {x: a}]", "A"),
        w("  A:\n    of(n, 1): [{z: {w: a}, x: a}, {y: '*'}]", "A"),
        w("  A:\n    all(n): [{x: ['foo', '*']}, {y: {z: a}, x: b}]\n  B: {f: a}", "A or B"),
        w("  A: [{f: 'a*', g: x}, {f: '*b'}, {g: y, n: {x: a}}]\n  B: {n: {y: b}}", "A and B"),
        w("  A: {n: {x: a}, g: x}\n  B: {n: {of(y, 1): [1, 2, 'a*']}}\n  C: {f: ['*a*', '?b']}", "A and B and not C"),
        w("  A: {all(f): ['*a*', '*b*'], g: ['x', 'iy']}\n  B: [{f: a}, {f: '?^b'}, {h: 1}]", "of(A, 1) or all(B)"),
        w("  A: {f: ['a*', '*b'], n: {x: ['a', 'b*']}}\n  B: {f: ['ia*', 'i*b'], n: {x: a}}", "A or not B"),
    ]
}

/// part 2d: ambient state. The engine logs through `tracing`; whether a subscriber is installed
/// (and at which level) is not an input of loading, optimising or matching.
struct EverythingEnabled;
impl tracing::Subscriber for EverythingEnabled {
    fn enabled(&self, _: &tracing::Metadata<'_>) -> bool {
        true
    }
    fn new_span(&self, _: &tracing::span::Attributes<'_>) -> tracing::span::Id {
        tracing::span::Id::from_u64(1)
    }
    fn record(&self, _: &tracing::span::Id, _: &tracing::span::Record<'_>) {}
    fn record_follows_from(&self, _: &tracing::span::Id, _: &tracing::span::Id) {}
    fn event(&self, _: &tracing::Event<'_>) {}
    fn enter(&self, _: &tracing::span::Id) {}
    fn exit(&self, _: &tracing::span::Id) {}
}

fn part2d(spec: &RuleSpec) -> Stats {
    let mut st = Stats::default();
    let yaml = spec.yaml();
    let docs = gen::docs_for(spec, 1, 24);
    let observe_all = |y: &str| -> Option<String> {
        let r = eng::load(y).ok()?;
        let mut out = String::new();
        for sw in [0u8, 0b1111, 0b1010] {
            let o = eng::optimise_with(&r, sw, &[]).ok()?.0;
            out.push_str(&eng::canon(&o));
            out.push('#');
            for d in &docs {
                out.push(match eng::val3(&o, d) {
                    Ok(1) => 'T',
                    Ok(0) => 'F',
                    Ok(_) => 'M',
                    Err(_) => 'P',
                });
            }
            out.push('|');
        }
        Some(out)
    };
    let plain = observe_all(&yaml);
    let traced = tracing::subscriber::with_default(EverythingEnabled, || observe_all(&yaml));
    st.states += 2;
    st.traces += 2;
    st.evaluations += 2 * docs.len() as u64 * 3;
    st.transitions += 2;
    let loaded = plain.is_some();
    if plain != traced {
        st.push_violation(Violation {
            signature: "result-depends-on-whether-a-tracing-subscriber-is-installed".into(),
            witness: format!("without a subscriber {:?} ; with an all-levels subscriber {:?} ; rule {}", plain.map(|p| p.chars().take(160).collect::<String>()), traced.map(|p| p.chars().take(160).collect::<String>()), one_line(&yaml)),
            replay: json!({"kind":"load","rule_yaml":yaml,"note":"compare under tracing::subscriber::with_default(<all levels enabled>)"}),
        });
    }
    if loaded {
        st.nontrivial += 1;
    }
    st
}

// ---------------------------------------------------------------------------------------------
// part 3: schedules - all interleavings of matches() calls at callback granularity

/// a document whose every lookup - on the document and on every nested object - is a scheduling
/// point of the controlled scheduler
enum YVal {
    Null,
    Bool(bool),
    Int(i64),
    UInt(u64),
    Float(f64),
    Str(String),
    Arr(Vec<YVal>),
    Obj(YObj),
}
struct YObj(Vec<(String, YVal)>);
impl tau_engine::AsValue for YVal {
    fn as_value(&self) -> Value<'_> {
        match self {
            YVal::Null => Value::Null,
            YVal::Bool(b) => Value::Bool(*b),
            YVal::Int(i) => Value::Int(*i),
            YVal::UInt(u) => Value::UInt(*u),
            YVal::Float(f) => Value::Float(*f),
            YVal::Str(s) => Value::String(std::borrow::Cow::Borrowed(s)),
            YVal::Arr(a) => Value::Array(a),
            YVal::Obj(o) => Value::Object(o),
        }
    }
}
impl Object for YObj {
    fn get(&self, key: &str) -> Option<Value<'_>> {
        shuttle::thread::yield_now();
        use tau_engine::AsValue;
        self.0.iter().find(|(k, _)| k == key).map(|(_, v)| v.as_value())
    }
    fn keys(&self) -> Vec<std::borrow::Cow<'_, str>> {
        self.0.iter().map(|(k, _)| std::borrow::Cow::Borrowed(k.as_str())).collect()
    }
    fn len(&self) -> usize {
        self.0.len()
    }
}
fn yval(v: &crate::mdoc::MVal) -> YVal {
    use crate::mdoc::MVal;
    match v {
        MVal::Null => YVal::Null,
        MVal::Bool(b) => YVal::Bool(*b),
        MVal::Int(i) => YVal::Int(*i),
        MVal::UInt(u) => YVal::UInt(*u),
        MVal::Float(f) => YVal::Float(*f),
        MVal::Str(s) => YVal::Str(s.clone()),
        MVal::Arr(a) => YVal::Arr(a.iter().map(yval).collect()),
        MVal::Obj(o) => YVal::Obj(yobj(o)),
    }
}
fn yobj(o: &MObj) -> YObj {
    YObj(o.0.iter().map(|(k, v)| (k.clone(), yval(v))).collect())
}
struct YieldingDoc(YObj);
impl YieldingDoc {
    fn new(d: &MObj) -> Self {
        YieldingDoc(yobj(d))
    }
}
impl Document for YieldingDoc {
    fn find(&self, key: &str) -> Option<Value<'_>> {
        Object::find(&self.0, key)
    }
}

/// deviation-bounded DFS scheduler: choice 0 = keep running the current task (or the lowest id
/// when it is done); every other choice is one deviation.
struct BoundedScheduler {
    bound: u32,
    stack: Vec<Vec<u32>>,
    prefix: Vec<u32>,
    trace: Vec<(u32, u32)>,
    started: bool,
    executions: usize,
    cap: usize,
    pub capped: Arc<AtomicUsize>,
}
impl BoundedScheduler {
    fn new(bound: u32, cap: usize, capped: Arc<AtomicUsize>) -> Self {
        BoundedScheduler {
            bound,
            stack: vec![vec![]],
            prefix: vec![],
            trace: vec![],
            started: false,
            executions: 0,
            cap,
            capped,
        }
    }
}
impl Scheduler for BoundedScheduler {
    fn new_execution(&mut self) -> Option<Schedule> {
        if self.started {
            // expand the execution that just finished
            let used = self.prefix.iter().filter(|c| **c != 0).count() as u32;
            if used < self.bound {
                let mut kids = vec![];
                for i in self.prefix.len()..self.trace.len() {
                    for alt in 1..self.trace[i].0 {
                        let mut p: Vec<u32> = self.trace[..i].iter().map(|(_, c)| *c).collect();
                        p.push(alt);
                        kids.push(p);
                    }
                }
                for k in kids.into_iter().rev() {
                    self.stack.push(k);
                }
            }
        }
        self.started = true;
        if self.executions >= self.cap {
            if !self.stack.is_empty() {
                self.capped.store(1, Ordering::SeqCst);
            }
            return None;
        }
        let p = self.stack.pop()?;
        self.prefix = p;
        self.trace.clear();
        self.executions += 1;
        Some(Schedule::new(0))
    }
    fn next_task(&mut self, runnable: &[&Task], current: Option<TaskId>, _is_yielding: bool) -> Option<TaskId> {
        let mut order: Vec<TaskId> = vec![];
        if let Some(c) = current {
            if runnable.iter().any(|t| t.id() == c) {
                order.push(c);
            }
        }
        let mut rest: Vec<TaskId> = runnable.iter().map(|t| t.id()).filter(|id| Some(*id) != current || order.is_empty()).collect();
        rest.sort_by_key(|id| usize::from(*id));
        for r in rest {
            if !order.contains(&r) {
                order.push(r);
            }
        }
        let pos = self.trace.len();
        let arity = order.len() as u32;
        let c = if arity <= 1 {
            0
        } else if pos < self.prefix.len() {
            let c = self.prefix[pos];
            assert!(c < arity, "scheduler prefix diverged");
            c
        } else {
            0
        };
        self.trace.push((arity, c));
        Some(order[c as usize])
    }
    fn next_u64(&mut self) -> u64 {
        0
    }
}

struct SchedCase {
    name: String,
    yaml: String,
    rule: Arc<Rule>,
    /// per thread: the documents it matches, in order
    work: Vec<Vec<MObj>>,
    expected: Vec<Vec<bool>>,
}

#[derive(Clone, Copy)]
enum Sched {
    Dfs,
    Bounded(u32, usize),
    RoundRobin,
    Random(u64, usize),
}

fn run_schedules(case: &SchedCase, bounded: Option<(u32, usize)>) -> (usize, Vec<String>, bool) {
    run_sched(case, match bounded {
        None => Sched::Dfs,
        Some((b, c)) => Sched::Bounded(b, c),
    })
}

fn run_sched(case: &SchedCase, sched: Sched) -> (usize, Vec<String>, bool) {
    let count = Arc::new(AtomicUsize::new(0));
    let bad: Arc<Mutex<Vec<String>>> = Arc::new(Mutex::new(vec![]));
    let rule = case.rule.clone();
    let work = Arc::new(case.work.clone());
    let expected = Arc::new(case.expected.clone());
    let count2 = count.clone();
    let bad2 = bad.clone();
    let body = move || {
        count2.fetch_add(1, Ordering::SeqCst);
        let mut hs = vec![];
        // many threads: start together, so that a lock-step schedule has all of them inside
        // matches() at the same time
        let gate = if work.len() > 3 {
            Some(Arc::new(shuttle::sync::Barrier::new(work.len())))
        } else {
            None
        };
        for (t, docs) in work.iter().enumerate() {
            let rule = rule.clone();
            let docs = docs.clone();
            let gate = gate.clone();
            hs.push((
                t,
                shuttle::thread::spawn(move || {
                    if let Some(g) = &gate {
                        g.wait();
                    }
                    docs.iter()
                        .map(|d| rule.matches(&YieldingDoc::new(d)))
                        .collect::<Vec<bool>>()
                }),
            ));
        }
        for (t, h) in hs {
            let got = h.join().unwrap();
            if got != expected[t] {
                let mut b = bad2.lock().unwrap();
                if b.len() < 3 {
                    b.push(format!("thread {} observed {:?}, sequential verdicts are {:?}", t, got, expected[t]));
                }
            }
        }
    };
    let capped = Arc::new(AtomicUsize::new(0));
    let mut cfg = shuttle::Config::new();
    cfg.silence_warnings = true;
    let res = std::panic::catch_unwind(std::panic::AssertUnwindSafe(|| match sched {
        Sched::Dfs => {
            let s = shuttle::scheduler::DfsScheduler::new(None, false);
            shuttle::Runner::new(s, cfg).run(body)
        }
        Sched::Bounded(b, cap) => {
            let s = BoundedScheduler::new(b, cap, capped.clone());
            shuttle::Runner::new(s, cfg).run(body)
        }
        Sched::RoundRobin => {
            let s = shuttle::scheduler::RoundRobinScheduler::new(1);
            shuttle::Runner::new(s, cfg).run(body)
        }
        Sched::Random(seed, n) => {
            let s = shuttle::scheduler::RandomScheduler::new_from_seed(seed, n);
            shuttle::Runner::new(s, cfg).run(body)
        }
    }));
    let mut msgs = bad.lock().unwrap().clone();
    if let Err(e) = res {
        let m = if let Some(s) = e.downcast_ref::<String>() {
            s.clone()
        } else if let Some(s) = e.downcast_ref::<&str>() {
            s.to_string()
        } else {
            "panic".into()
        };
        msgs.push(format!("panic under the controlled scheduler: {}", m.chars().take(300).collect::<String>()));
    }
    (count.load(Ordering::SeqCst), msgs, capped.load(Ordering::SeqCst) != 0)
}

fn sched_cases(th: bool) -> Vec<SchedCase> {
    let texts: Vec<(&str, &str)> = vec![
        ("matrix", "detection:\n  A: [{f: 'a*', g: x}, {f: '*b', h: y}, {g: '*a*'}]\n  condition: A\ntrue_positives: []\ntrue_negatives: []\n"),
        ("nested+not", "detection:\n  A: {n: {x: a, y: b}}\n  B: {f: ['a*', '?b$']}\n  condition: A and not B\ntrue_positives: []\ntrue_negatives: []\n"),
        ("quantifier", "detection:\n  A: [{f: 'a*'}, {g: x}, {h: y}]\n  condition: of(A, 2)\ntrue_positives: []\ntrue_negatives: []\n"),
        ("casts", "detection:\n  A: {f: '*a*'}\n  condition: int(g) >= 1 and str(f) == str(h) or A\ntrue_positives: []\ntrue_negatives: []\n"),
        ("nested4", "detection:\n  A: {n: {x: {y: {z: a, w: ['b*', '?c']}}}}\n  condition: A\ntrue_positives: []\ntrue_negatives: []\n"),
    ];
    let docsets: Vec<Vec<MObj>> = {
        use crate::mdoc::{obj, s, MVal};
        vec![
            vec![
                MObj::new().with("f", s("ab")).with("g", s("x")).with("h", s("y")),
                MObj::new().with("f", s("b")).with("g", s("a")),
                MObj::new().with("g", MVal::Int(1)).with("f", s("1")).with("h", s("1")),
                MObj::new().with("n", obj(vec![("x", s("a")), ("y", s("b"))])).with("f", s("c")),
                MObj::new(),
                MObj::new().with("n", obj(vec![("x", obj(vec![("y", obj(vec![("z", s("a")), ("w", s("bc"))]))]))])),
                MObj::new().with("n", obj(vec![("x", obj(vec![("y", obj(vec![("z", s("b")), ("w", s("bc"))]))]))])),
            ],
        ]
    };
    let mut out = vec![];
    for (name, y) in texts {
        let loaded = Rule::from_str(y).unwrap();
        for sw in [0u8, 0b1111] {
            let rule = if sw == 0 {
                loaded.clone()
            } else {
                loaded.clone().optimise(eng::opts(sw))
            };
            let docs = &docsets[0];
            let seq: Vec<bool> = docs.iter().map(|d| rule.matches(d)).collect();
            // 2 threads x 1 document, 2 threads x 2 documents, 3 threads x 1 document
            let mut shapes: Vec<Vec<Vec<usize>>> = vec![vec![vec![0], vec![1]], vec![vec![0, 1], vec![2, 3]]];
            if sw != 0 || th {
                shapes.push(vec![vec![0], vec![1], vec![3]]);
            }
            if th {
                shapes.push(vec![vec![0, 3, 1], vec![1, 0, 4]]);
            }
            for sh in shapes {
                out.push(SchedCase {
                    name: format!("{}/{}/{}threads", name, eng::sw_name(sw), sh.len()),
                    yaml: y.to_string(),
                    rule: Arc::new(rule.clone()),
                    work: sh.iter().map(|t| t.iter().map(|i| docs[*i].clone()).collect()).collect(),
                    expected: sh.iter().map(|t| t.iter().map(|i| seq[*i]).collect()).collect(),
                });
            }
        }
    }
    out
}

// ---------------------------------------------------------------------------------------------
// part 4: processes

pub fn digest_specs() -> Vec<RuleSpec> {
    let mut v: Vec<RuleSpec> = gen::family_conditions(0).into_iter().step_by(3).collect();
    v.extend(gen::family_matrix(0).into_iter().step_by(7));
    v.extend(gen::family_bodies(0).into_iter().step_by(3));
    v.extend(gen::family_single(0).into_iter().step_by(5));
    v.extend(gen::family_regex(3));
    v
}

/// per-rule digests of (optimised Display, verdict table, serialised form) over a slice of the
/// universe, computed in this process in the given processing order (results are reported in
/// canonical order, so a dependence on what was processed before shows as a difference)
/// processing orders: 0 identity, 1 reverse, k >= 2 a fixed pseudo-random shuffle with seed k
pub fn order_of(n: usize, mode: u64) -> Vec<usize> {
    let mut order: Vec<usize> = (0..n).collect();
    match mode {
        0 => {}
        1 => order.reverse(),
        k => {
            let mut rng = crate::report::Rng::new(k * 7919);
            for i in (1..n).rev() {
                order.swap(i, rng.below(i + 1));
            }
        }
    }
    order
}

fn rule_digest(sp: &RuleSpec) -> Option<u64> {
    let yaml = sp.yaml();
    let r = eng::load(&yaml).ok()?;
    let mut acc: Vec<u64> = vec![];
    let docs = gen::docs_for(sp, 1, 60);
    for sw in [0u8, 0b1111, 0b1110, 0b1010, 0b0100] {
        let o = match eng::optimise_with(&r, sw, &[]) {
            Ok((o, _)) => o,
            Err(_) => {
                acc.push(0xdead);
                continue;
            }
        };
        let bits: String = docs
            .iter()
            .map(|d| match eng::matches(&o, d) {
                Ok(true) => '1',
                Ok(false) => '0',
                Err(_) => 'P',
            })
            .collect();
        acc.push(stable_hash(&(eng::canon(&o), bits, format!("{}", o.detection.expression))));
        // serialised form is part of what a user can observe
        acc.push(stable_hash(&serde_yaml::to_string(&o).map(|t| {
            // identifiers are a HashMap in the serialised struct: compare as a sorted set of lines
            let mut l: Vec<&str> = t.lines().collect();
            l.sort();
            l.join("\n")
        }).unwrap_or_default()));
    }
    Some(stable_hash(&acc))
}

/// the rules whose pairwise order is explored exhaustively (one fresh process per ordered pair)
/// rules that a lossy cache key could confuse with one another: the same needles in another
/// order, with another kind, another case flag, or split at another place (a needle containing
/// the separator a key might be joined with); in row form (merged by shake) and in list form
pub fn confusable_specs() -> Vec<RuleSpec> {
    use crate::gen::{e, list, st, Body};
    let rows = |ps: &[&str]| RuleSpec::one(Body::Seq(ps.iter().map(|p| vec![e("f", st(p))]).collect()));
    let lst = |ps: &[&str]| RuleSpec::one(Body::Map(vec![e("f", list(ps.iter().map(|p| st(p)).collect()))]));
    let sets: Vec<Vec<&str>> = vec![
        vec!["a*", "*b"],
        vec!["*b", "a*"],
        vec!["*a", "b*"],
        vec!["b*", "*a"],
        vec!["ia*", "i*b"],
        vec!["a", "*b*"],
        vec!["*a*", "b"],
        vec!["*a*", "*b*", "*x*"],
        vec!["*x*", "*b*", "*a*"],
        vec!["*a|b*", "*x*"],
        vec!["*a*", "*b|x*"],
        vec!["*a,b*", "*x*"],
        vec!["?a", "?b"],
        vec!["?b", "?a"],
        vec!["i?a", "i?b"],
    ];
    let mut out = vec![];
    for ps in &sets {
        out.push(rows(ps));
        out.push(lst(ps));
    }
    out
}

pub fn pair_specs() -> Vec<RuleSpec> {
    let mut v: Vec<RuleSpec> = gen::family_regex(3).into_iter().filter(|s| eng::load(&s.yaml()).is_ok()).collect();
    v.extend(gen::family_single(0).into_iter().step_by(97));
    v.extend(gen::family_matrix(0).into_iter().step_by(997));
    v.extend(gen::family_wide().into_iter().step_by(7));
    v.extend(confusable_specs());
    v
}

/// child: process rule i, then rule j, print the digest of rule j
pub fn pair_child(i: usize, j: usize) -> i32 {
    let v = pair_specs();
    if i >= v.len() || j >= v.len() {
        return 2;
    }
    let _ = rule_digest(&v[i]);
    println!("{:x}", rule_digest(&v[j]).unwrap_or(0));
    0
}

pub fn digest(mode: u64) -> (u64, usize, Vec<u64>) {
    let specs = digest_specs();
    let mut per_rule: Vec<u64> = vec![0; specs.len()];
    let mut n = 0;
    let order: Vec<usize> = order_of(specs.len(), mode);
    for i in order {
        if let Some(h) = rule_digest(&specs[i]) {
            n += 1;
            per_rule[i] = h;
        }
    }
    (stable_hash(&per_rule), n, per_rule)
}

pub fn digest_child(mode: u64) -> i32 {
    let (d, n, per) = digest(mode);
    println!("digest {:016x} rules {}", d, n);
    println!("per-rule {}", per.iter().map(|x| format!("{:x}", x)).collect::<Vec<_>>().join(","));
    0
}

fn source_scan() -> Vec<String> {
    let mut found = vec![];
    let pats = [
        "static mut", "unsafe", "Cell<", "RefCell", "Mutex", "RwLock", "Atomic", "thread_local", "OnceCell",
        "OnceLock", "lazy_static", "static ref", "SystemTime", "Instant::", "env::", "rand",
    ];
    if let Ok(rd) = std::fs::read_dir("/repo/src") {
        let mut files: Vec<_> = rd.filter_map(|e| e.ok()).map(|e| e.path()).collect();
        files.sort();
        for p in files {
            let name = p.file_name().unwrap().to_string_lossy().to_string();
            if name == "verif.rs" || !name.ends_with(".rs") {
                continue;
            }
            if let Ok(t) = std::fs::read_to_string(&p) {
                let body = match t.find("#[cfg(test)]\nmod tests") {
                    Some(i) => &t[..i],
                    None => &t[..],
                };
                for (ln, line) in body.lines().enumerate() {
                    let l = line.trim_start();
                    if l.starts_with("//") {
                        continue;
                    }
                    for pat in pats {
                        if line.contains(pat) {
                            found.push(format!("{}:{}: {}", name, ln + 1, pat));
                        }
                    }
                }
            }
        }
    }
    found
}

pub fn run(tier: Tier) -> i32 {
    let mut rep = Report::new("C12", tier);
    let th = tier.thorough();
    // part 1
    let level = if th { 1 } else { 0 };
    let specs: Vec<RuleSpec> = if th {
        let mut v = gen::family_single(1);
        v.extend(gen::family_bodies(1));
        v.extend(gen::family_conditions(1));
        v.extend(gen::family_matrix(0));
        v
    } else {
        gen::universe_quick()
    };
    let mut specs = specs;
    specs.extend(twin_specs());
    let parts: Vec<Stats> = specs.par_iter().map(|s| part1(s, level.min(1))).collect();
    let mut p1 = Stats::default();
    for p in parts {
        p1.merge(p);
    }
    let p1_states = p1.states;
    rep.stats.merge(p1);
    rep.stats.count("part1_rules", specs.len() as u64);
    rep.stats.count("part1_hash_orders_explored", p1_states);
    // part 2
    let hist_specs: Vec<RuleSpec> = {
        let mut v: Vec<RuleSpec> = gen::family_matrix(0).into_iter().step_by(if th { 9 } else { 61 }).collect();
        v.extend(gen::family_conditions(0).into_iter().step_by(if th { 11 } else { 67 }));
        v.extend(gen::family_single(0).into_iter().step_by(if th { 13 } else { 71 }));
        v.extend(gen::family_wide().into_iter().step_by(if th { 1 } else { 3 }));
        v.extend(gen::family_castconds(0).into_iter().step_by(if th { 17 } else { 97 }));
        v
    };
    let parts: Vec<Stats> = hist_specs.par_iter().map(|s| part2(s, 4)).collect();
    for p in parts {
        rep.stats.merge(p);
    }
    let vh = value_history_cases();
    let parts: Vec<Stats> = vh.par_iter().map(|(y, d)| part2_docs(y, d.clone(), if th { 3 } else { 2 }, 12)).collect();
    for p in parts {
        rep.stats.merge(p);
    }
    rep.stats.count("part2_value_history_rules", vh.len() as u64);
    rep.stats.count("part2_rules", hist_specs.len() as u64);
    // part 2b: API-call histories on one rule value
    let api_specs: Vec<RuleSpec> = {
        let mut v: Vec<RuleSpec> = hist_specs.iter().step_by(if th { 2 } else { 3 }).cloned().collect();
        v.extend(twin_specs().into_iter().step_by(if th { 1 } else { 3 }));
        v
    };
    let api_depth = if th { 4 } else { 3 };
    let parts: Vec<Stats> = api_specs.par_iter().map(|s| part2_api(s, api_depth)).collect();
    for p in parts {
        rep.stats.merge(p);
    }
    rep.stats.count("part2b_rules", api_specs.len() as u64);
    // part 2e: histories of loads (accepted and rejected texts) on one thread
    rep.stats.merge(part2_loads(if th { 4 } else { 3 }));
    // part 2c: sequences of optimise calls on one thread
    let mut seq_rules: Vec<(String, Vec<MObj>)> = vec![];
    for sp in api_specs.iter().step_by(if th { 1 } else { 2 }) {
        seq_rules.push((sp.yaml(), gen::docs_for(sp, 1, 16)));
    }
    for sp in confusable_specs() {
        seq_rules.push((sp.yaml(), gen::docs_for(&sp, 1, 16)));
    }
    let rich_docs: Vec<MObj> = {
        use crate::mdoc::{arr, obj, s as ms, MVal};
        let o = |v: MVal| match v { MVal::Obj(o) => o, _ => MObj::new() };
        vec![
            MObj::new(),
            o(obj(vec![("f", ms("ab")), ("g", ms("x")), ("n", obj(vec![("x", ms("a")), ("y", ms("b"))]))])),
            o(obj(vec![("f", ms("a")), ("n", arr(vec![obj(vec![("x", ms("a"))]), obj(vec![("y", ms("b")), ("x", ms("b"))])]))])),
            o(obj(vec![("f", ms("b")), ("g", ms("y")), ("h", MVal::Int(1)), ("n", obj(vec![("y", MVal::Int(1)), ("z", obj(vec![("w", ms("a"))]))]))])),
            o(obj(vec![("n", obj(vec![("x", ms("foo")), ("y", obj(vec![("z", ms("a"))]))]))])),
        ]
    };
    for y in rich_rules() {
        seq_rules.push((y, rich_docs.clone()));
    }
    let parts: Vec<Stats> = seq_rules.par_iter().map(|(y, d)| part2c(y, d, 2)).collect();
    for p in parts {
        rep.stats.merge(p);
    }
    if th {
        let parts: Vec<Stats> = seq_rules.par_iter().step_by(4).map(|(y, d)| part2c(y, d, 3)).collect();
        for p in parts {
            rep.stats.merge(p);
        }
        let rr = rich_rules();
        let parts: Vec<Stats> = rr.par_iter().map(|y| part2c(y, &rich_docs, 3)).collect();
        for p in parts {
            rep.stats.merge(p);
        }
    }
    rep.stats.count("part2c_rules", seq_rules.len() as u64);
    // part 2d: with and without a tracing subscriber
    let amb_specs: Vec<RuleSpec> = if th { gen::universe(0).into_iter().step_by(3).collect() } else { gen::universe_quick().into_iter().step_by(7).collect() };
    let parts: Vec<Stats> = amb_specs.par_iter().map(part2d).collect();
    for p in parts {
        rep.stats.merge(p);
    }
    rep.stats.count("part2d_rules", amb_specs.len() as u64);
    rep.extra.insert("api_history_operations".into(), json!(API_OPS));
    rep.extra.insert("api_history_depth".into(), json!(api_depth));
    // part 3 (sequential: shuttle owns its thread)
    let mut total_sched = 0usize;
    let mut sched_detail = vec![];
    for case in sched_cases(th) {
        let t0 = std::time::Instant::now();
        let (n, msgs, _) = run_schedules(&case, None);
        eprintln!("  schedules {}: {} in {:?}", case.name, n, t0.elapsed());
        total_sched += n;
        sched_detail.push(json!({"case": case.name, "schedules": n, "exhaustive": true}));
        rep.stats.states += n as u64;
        rep.stats.transitions += n as u64;
        rep.stats.traces += n as u64;
        for m in msgs {
            rep.stats.push_violation(Violation {
                signature: "verdict-differs-under-some-interleaving".into(),
                witness: format!("{}: {}", case.name, m),
                replay: json!({"kind":"schedule","rule_yaml":case.yaml,"case":case.name}),
            });
        }
    }
    // 4 / 8 / 16 threads, deviation bounded
    let mut bounded_total = 0usize;
    for nthreads in [4usize, 8, 16] {
        let base = &sched_cases(false)[1]; // matrix, optimised, 2 threads -> rebuild with n threads
        let docs: Vec<MObj> = base.work.iter().flatten().cloned().collect();
        let seqv: Vec<bool> = docs.iter().map(|d| base.rule.matches(d)).collect();
        let work: Vec<Vec<MObj>> = (0..nthreads).map(|t| vec![docs[t % docs.len()].clone()]).collect();
        let expected: Vec<Vec<bool>> = (0..nthreads).map(|t| vec![seqv[t % docs.len()]]).collect();
        let case = SchedCase {
            name: format!("matrix/optimised/{}threads/bounded", nthreads),
            yaml: base.yaml.clone(),
            rule: base.rule.clone(),
            work,
            expected,
        };
        let cap = if th { 200000 } else { 8000 };
        // iterate the deviation bound; report the highest bound completed under the cap
        let mut completed: i32 = -1;
        for b in 0..=2u32 {
            let (n, msgs, capped) = run_schedules(&case, Some((b, cap)));
            for m in msgs {
                rep.stats.push_violation(Violation {
                    signature: "verdict-differs-under-some-interleaving".into(),
                    witness: format!("{}: {}", case.name, m),
                    replay: json!({"kind":"schedule","rule_yaml":case.yaml,"case":case.name}),
                });
            }
            if capped {
                sched_detail.push(json!({"case": case.name, "deviation_bound": b, "schedules": n, "completed": false, "note": "cap hit, not counted"}));
                break;
            }
            completed = b as i32;
            bounded_total += n;
            rep.stats.states += n as u64;
            rep.stats.transitions += n as u64;
            rep.stats.traces += n as u64;
            sched_detail.push(json!({"case": case.name, "deviation_bound": b, "schedules": n, "completed": true}));
        }
        rep.stats.count(&format!("part3_{}threads_deviation_bound_completed", nthreads), completed.max(0) as u64);
    }
    // maximal overlap: all 16 threads inside matches() at once (round-robin advances every thread
    // by one callback in turn), plus seeded random schedules - single schedules / samples
    {
        let all_cases = sched_cases(false);
        let mut overlap = 0usize;
        for base in all_cases.iter().filter(|c| c.name.ends_with("/2threads")).step_by(2) {
            let docs: Vec<MObj> = {
                use crate::mdoc::{obj, s};
                vec![
                    MObj::new().with("f", s("ab")).with("g", s("x")).with("h", s("y")),
                    MObj::new().with("n", obj(vec![("x", obj(vec![("y", obj(vec![("z", s("a")), ("w", s("bc"))]))]))])),
                    MObj::new().with("n", obj(vec![("x", s("a")), ("y", s("b"))])).with("f", s("c")),
                    MObj::new().with("g", crate::mdoc::MVal::Int(1)).with("f", s("1")).with("h", s("1")),
                ]
            };
            let seqv: Vec<bool> = docs.iter().map(|d| base.rule.matches(d)).collect();
            let n = 16usize;
            let case = SchedCase {
                name: format!("{}/16threads/overlap", base.name.rsplitn(2, '/').nth(1).unwrap_or("")),
                yaml: base.yaml.clone(),
                rule: base.rule.clone(),
                work: (0..n).map(|t| vec![docs[t % docs.len()].clone()]).collect(),
                expected: (0..n).map(|t| vec![seqv[t % docs.len()]]).collect(),
            };
            // and one where every thread works on the most deeply nested document
            let deep = SchedCase {
                name: format!("{}/16threads/overlap-all-deep", base.name.rsplitn(2, '/').nth(1).unwrap_or("")),
                yaml: base.yaml.clone(),
                rule: base.rule.clone(),
                work: (0..n).map(|_| vec![docs[1].clone()]).collect(),
                expected: (0..n).map(|_| vec![seqv[1]]).collect(),
            };
            for (label, sc) in [("round-robin", Sched::RoundRobin), ("random", Sched::Random(crate::report::seed() + 1, if th { 200 } else { 30 }))] {
                let (k, msgs, _) = run_sched(&deep, sc);
                overlap += k;
                rep.stats.states += k as u64;
                rep.stats.transitions += k as u64;
                rep.stats.traces += k as u64;
                for m in msgs {
                    rep.stats.push_violation(Violation {
                        signature: "verdict-differs-under-some-interleaving".into(),
                        witness: format!("{} ({} schedule): {}", deep.name, label, m),
                        replay: json!({"kind":"schedule","rule_yaml":deep.yaml,"case":deep.name,"scheduler":label}),
                    });
                }
            }
            for (label, sc) in [
                ("round-robin", Sched::RoundRobin),
                ("random", Sched::Random(crate::report::seed(), if th { 400 } else { 60 })),
            ] {
                let (k, msgs, _) = run_sched(&case, sc);
                overlap += k;
                rep.stats.states += k as u64;
                rep.stats.transitions += k as u64;
                rep.stats.traces += k as u64;
                for m in msgs {
                    rep.stats.push_violation(Violation {
                        signature: "verdict-differs-under-some-interleaving".into(),
                        witness: format!("{} ({} schedule): {}", case.name, label, m),
                        replay: json!({"kind":"schedule","rule_yaml":case.yaml,"case":case.name,"scheduler":label}),
                    });
                }
            }
        }
        rep.stats.count("part3_overlap_schedules_16_threads(round-robin+random sample)", overlap as u64);
    }
    rep.stats.count("part3_exhaustive_schedules_2_3_threads", total_sched as u64);
    rep.stats.count("part3_bounded_schedules_4_16_threads", bounded_total as u64);
    rep.extra.insert("schedule_cases".into(), json!(sched_detail));
    // free-running supplement: 16 OS threads, on the matrix rule and on the deeply nested rule
    for which in ["matrix/coalesce", "nested4/none"] {
        let cases_fr = sched_cases(false);
        let case = match cases_fr.iter().find(|c| c.name.starts_with(which)) {
            Some(c) => c,
            None => continue,
        };
        let mut docs: Vec<MObj> = case.work.iter().flatten().cloned().collect();
        {
            use crate::mdoc::{obj, s};
            docs.push(MObj::new().with("n", obj(vec![("x", obj(vec![("y", obj(vec![("z", s("a")), ("w", s("bc"))]))]))])));
        }
        let seqv: Vec<bool> = docs.iter().map(|d| case.rule.matches(d)).collect();
        let bad = Arc::new(AtomicUsize::new(0));
        let mut hs = vec![];
        for t in 0..16 {
            let rule = case.rule.clone();
            let docs = docs.clone();
            let seqv = seqv.clone();
            let bad = bad.clone();
            hs.push(std::thread::spawn(move || {
                for i in 0..(2000usize) {
                    let k = (i + t) % docs.len();
                    if rule.matches(&docs[k]) != seqv[k] {
                        bad.fetch_add(1, Ordering::SeqCst);
                    }
                }
            }));
        }
        for h in hs {
            let _ = h.join();
        }
        rep.extra.insert(format!("free_running_supplement[{}]", which), json!({"threads":16,"calls":32000,"mismatches":bad.load(Ordering::SeqCst),"what":"uncontrolled OS threads; a sample, not part of the exhaustive claim"}));
        if bad.load(Ordering::SeqCst) > 0 {
            rep.stats.push_violation(Violation {
                signature: "verdict-differs-under-free-running-threads".into(),
                witness: format!("{} of 32000 concurrent matches() calls differ from the sequential verdict", bad.load(Ordering::SeqCst)),
                replay: json!({"kind":"schedule","rule_yaml":case.yaml,"case":"free-running"}),
            });
        }
    }
    // part 4: two fresh processes (different environment and working directory) + this process
    let exe = std::env::current_exe().unwrap();
    let here = digest(0);
    let specs_d = digest_specs();
    let mut digests: BTreeMap<String, String> = BTreeMap::new();
    digests.insert("in-process".into(), format!("digest {:016x} rules {}", here.0, here.1));
    let envs = [("/", "UTC", "C"), ("/tmp", "Asia/Tokyo", "de_DE.UTF-8")];
    let modes: Vec<u64> = if th { vec![0, 1, 2, 3, 4, 5, 6, 7, 8, 9] } else { vec![0, 1, 2, 3, 4, 5] };
    let outs: Vec<(u64, Result<String, String>)> = modes
        .par_iter()
        .map(|m| {
            let (cwd, tz, lang) = envs[(*m as usize) % 2];
            let out = std::process::Command::new(&exe)
                .arg("--c12-digest")
                .arg(m.to_string())
                .current_dir(cwd)
                .env("TZ", tz)
                .env("LANG", lang)
                .output();
            (*m, out.map(|o| String::from_utf8_lossy(&o.stdout).to_string()).map_err(|e| e.to_string()))
        })
        .collect();
    for (m, out) in outs {
        match out {
            Ok(t) => {
                let mut lines = t.lines();
                let first = lines.next().unwrap_or("").trim().to_string();
                let per: Vec<String> = lines
                    .next()
                    .and_then(|l| l.strip_prefix("per-rule "))
                    .map(|l| l.split(',').map(|x| x.to_string()).collect())
                    .unwrap_or_default();
                if first != digests["in-process"] {
                    // name the first rule whose observable behaviour differs
                    let mine: Vec<String> = here.2.iter().map(|x| format!("{:x}", x)).collect();
                    if let Some(k) = (0..mine.len().min(per.len())).find(|k| mine[*k] != per[*k]) {
                        digests.insert(format!("first-differing-rule(order {})", m), one_line(&specs_d[k].yaml()));
                    }
                }
                digests.insert(format!("child(order {})", m), first);
            }
            Err(e) => {
                eprintln!("machinery error: cannot run the digest child: {}", e);
                return 2;
            }
        }
    }
    // exhaustive ordered pairs over the state-sensitive slice: rule j must look the same
    // whatever single rule i the process handled before it
    let pv = pair_specs();
    let alone: Vec<String> = (0..pv.len())
        .into_par_iter()
        .map(|j| {
            std::process::Command::new(&exe)
                .arg("--c12-pair")
                .arg(j.to_string())
                .arg(j.to_string())
                .output()
                .map(|o| String::from_utf8_lossy(&o.stdout).trim().to_string())
                .unwrap_or_default()
        })
        .collect();
    let np = pv.len();
    // quick: pairs within the general slice and within the confusable family; thorough: all pairs
    let n_old = np - confusable_specs().len();
    let pairs: Vec<(usize, usize)> = (0..np)
        .flat_map(|i| (0..np).map(move |j| (i, j)))
        .filter(|(i, j)| i != j && (th || (*i < n_old) == (*j < n_old)))
        .collect();
    let bad_pairs: Vec<(usize, usize, String)> = pairs
        .par_iter()
        .filter_map(|(i, j)| {
            let o = std::process::Command::new(&exe)
                .arg("--c12-pair")
                .arg(i.to_string())
                .arg(j.to_string())
                .output()
                .map(|o| String::from_utf8_lossy(&o.stdout).trim().to_string())
                .unwrap_or_default();
            if o != alone[*j] {
                Some((*i, *j, o))
            } else {
                None
            }
        })
        .collect();
    rep.stats.states += pairs.len() as u64;
    rep.stats.transitions += 2 * pairs.len() as u64;
    rep.stats.traces += pairs.len() as u64;
    rep.stats.count("part4_ordered_rule_pairs_in_fresh_processes", pairs.len() as u64);
    if let Some((i, j, _)) = bad_pairs.first() {
        rep.stats.push_violation(Violation {
            signature: "result-depends-on-a-rule-handled-earlier-in-the-process".into(),
            witness: format!(
                "{} ordered pairs differ, e.g. after handling [{}] the rule [{}] optimises/decides differently than on its own",
                bad_pairs.len(),
                one_line(&pv[*i].yaml()),
                one_line(&pv[*j].yaml())
            ),
            replay: json!({"kind":"process","first_rule_yaml":pv[*i].yaml(),"rule_yaml":pv[*j].yaml()}),
        });
    }
    let distinct: BTreeSet<&String> = digests.iter().filter(|(k, _)| !k.starts_with("first-differing")).map(|(_, v)| v).collect();
    rep.stats.states += modes.len() as u64 + 1;
    rep.stats.transitions += (modes.len() as u64 + 1) * here.1 as u64 * 5;
    rep.stats.traces += modes.len() as u64 + 1;
    if distinct.len() != 1 {
        rep.stats.push_violation(Violation {
            signature: "output-differs-between-processes".into(),
            witness: format!("{:?}", digests),
            replay: json!({"kind":"process","digests":digests}),
        });
    }
    rep.extra.insert("process_digests".into(), json!(digests));
    // assumptions re-checked on every run
    let scan: Vec<String> = source_scan()
        .into_iter()
        // the one known static: the empty identifier map of `core` (never written)
        .filter(|h| !(h.starts_with("lib.rs:") && (h.ends_with("lazy_static") || h.ends_with("static ref"))))
        .collect();
    rep.extra.insert("source_scan_hits".into(), json!(scan));
    rep.assumptions = vec![
        "interleavings are explored at Document::find granularity: between two callbacks a thread runs engine code that owns no shared mutable state".into(),
        format!(
            "source scan of /repo/src for statics, interior mutability, locks, atomics, unsafe, clocks, env: {}",
            if scan.is_empty() { "no hit".to_string() } else { format!("WEAKENED ASSUMPTION, hits: {:?}", scan) }
        ),
        "every permutation of a small std HashMap is realisable (PermMap over-approximation) for part 1".into(),
        "the regex crate's internal pool is the dependency's business".into(),
    ];
    rep.stats.sample(json!({"part":"schedules","case":"matrix rule shared by 2 threads x 2 documents","granularity":"every find() yields before and after"}));
    rep.stats.sample(json!({"part":"histories","sequence":[0,3,1,2],"oracle":"verdict equals a fresh rule's; observable state unchanged"}));
    rep.rule = "part 1: every rule of the shared universe x 16 switch sets x every iteration order of every hooked optimiser map - the set of printed trees must be a singleton; load twice and Rule::optimise three times print and decide the same. part 2: explicit-state search over all document sequences of length 4 over a 4-document alphabet on ONE shared rule (as loaded and optimised): every verdict equals a fresh rule's, and the observable state (verdicts on 8 probes + Display) never leaves the initial state. part 3: Arc<Rule> shared by 2 and 3 shuttle threads, every Document::find is a scheduling point, shuttle DFS explores ALL interleavings; 4/8/16 threads under a deviation-bounded (<=2) DFS scheduler. part 4: digest of (Display, verdict table, serialised form) in this process and two fresh child processes with different cwd/TZ/LANG must agree. non-trivial = rule loaded".into();
    rep.finish()
}
