//! The reference interpreter of the rule language (DESIGN section 4.2). Works from the rule's YAML
//! text and a model document; never looks at the engine's expression tree. Every result is a
//! *set* of three-valued results (bit mask) so that what the documentation leaves open never
//! raises an alarm.

use serde_yaml::Value as Y;

use crate::mdoc::{MObj, MVal};
use crate::rx;

pub const T: u8 = 1;
pub const F: u8 = 2;
pub const M: u8 = 4;
pub const NT: u8 = F | M; // "not true", which of the two is not specified
pub const ANY: u8 = T | F | M;

pub fn set_name(b: u8) -> String {
    let mut v = vec![];
    if b & T != 0 {
        v.push("T");
    }
    if b & F != 0 {
        v.push("F");
    }
    if b & M != 0 {
        v.push("M");
    }
    format!("{{{}}}", v.join(","))
}

// ---------------------------------------------------------------------------------------------
// three-valued tables lifted to sets

pub fn s_not(a: u8) -> u8 {
    let mut r = 0;
    if a & T != 0 {
        r |= F;
    }
    if a & F != 0 {
        r |= T;
    }
    if a & M != 0 {
        r |= F;
    }
    r
}
/// `and` = first non-true in written order
pub fn s_and2(a: u8, b: u8) -> u8 {
    let mut r = a & NT;
    if a & T != 0 {
        r |= b;
    }
    r
}
pub fn s_and(v: &[u8]) -> u8 {
    v.iter().fold(T, |acc, x| s_and2(acc, *x))
}
pub fn s_or2(a: u8, b: u8) -> u8 {
    let mut r = 0;
    for x in [T, F, M] {
        if a & x == 0 {
            continue;
        }
        for y in [T, F, M] {
            if b & y == 0 {
                continue;
            }
            r |= if x == T || y == T {
                T
            } else if x == F || y == F {
                F
            } else {
                M
            };
        }
    }
    r
}
pub fn s_or(v: &[u8]) -> u8 {
    if v.is_empty() {
        return M;
    }
    v.iter().skip(1).fold(v[0], |acc, x| s_or2(acc, *x))
}
/// all(..): true iff every operand is true; which non-true value otherwise is not specified
pub fn s_all(v: &[u8]) -> u8 {
    let mut r = 0;
    if v.iter().all(|s| s & T != 0) {
        r |= T;
    }
    if v.iter().any(|s| s & NT != 0) {
        r |= NT;
    }
    r
}
/// of(.., n)
pub fn s_of(v: &[u8], n: u64) -> u8 {
    let min_t = v.iter().filter(|s| **s == T).count() as u64;
    let max_t = v.iter().filter(|s| **s & T != 0).count() as u64;
    if n == 0 {
        if v.iter().all(|s| *s == F) && !v.is_empty() {
            T
        } else if min_t > 0 {
            NT
        } else {
            ANY
        }
    } else {
        let mut r = 0;
        if max_t >= n {
            r |= T;
        }
        if min_t < n {
            r |= NT;
        }
        r
    }
}

// ---------------------------------------------------------------------------------------------
// rule model

#[derive(Debug, Clone, PartialEq)]
pub enum KeyMod {
    Plain,
    All,
    Of(u64),
    Not,
    Int,
    Flt,
    Str,
}

#[derive(Debug, Clone, Copy, PartialEq)]
pub enum Op {
    Eq,
    Gt,
    Ge,
    Lt,
    Le,
}

#[derive(Debug, Clone, PartialEq)]
pub enum Num {
    /// integer constants are kept exactly, also outside the i64 range (such a rule is a load
    /// error today; should one ever load, the relation is judged by exact arithmetic)
    I(i128),
    F(f64),
}

#[derive(Debug, Clone, PartialEq)]
pub enum Pat {
    Any,
    Exact(String),
    Starts(String),
    Ends(String),
    Contains(String),
    Regex(String),
    Cmp(Op, Num),
}

#[derive(Debug, Clone, PartialEq)]
pub enum RVal {
    Bool(bool),
    Num(Num),
    Null,
    Pat(Pat, bool),
    Map(Vec<REntry>),
    List(Vec<RVal>),
}

#[derive(Debug, Clone, PartialEq)]
pub struct REntry {
    pub kmod: KeyMod,
    pub field: String,
    pub val: RVal,
}

#[derive(Debug, Clone, PartialEq)]
pub enum RBody {
    Map(Vec<REntry>),
    Seq(Vec<Vec<REntry>>),
}

#[derive(Debug, Clone, PartialEq)]
pub enum Cond {
    Ident(String),
    Not(Box<Cond>),
    And(Box<Cond>, Box<Cond>),
    Or(Box<Cond>, Box<Cond>),
    All(String),
    Of(String, u64),
    Cmp(Operand, Op, Operand),
}

#[derive(Debug, Clone, PartialEq)]
pub enum Operand {
    Int(String),
    Flt(String),
    Str(String),
    I(i64),
    F(f64),
}

#[derive(Debug, Clone)]
pub struct RefRule {
    pub idents: Vec<(String, RBody)>,
    pub cond: Cond,
}

// ---------------------------------------------------------------------------------------------
// parsing the YAML text

pub fn parse_pattern(s: &str) -> Option<(Pat, bool)> {
    let (ci, rest) = match s.strip_prefix('i') {
        Some(r) => (true, r),
        None => (false, s),
    };
    if let Some(re) = rest.strip_prefix('?') {
        return Some((Pat::Regex(re.to_string()), ci));
    }
    for (p, op) in [(">=", Op::Ge), (">", Op::Gt), ("<=", Op::Le), ("<", Op::Lt), ("=", Op::Eq)] {
        if let Some(n) = rest.strip_prefix(p) {
            let num = if n.contains('.') {
                Num::F(n.parse::<f64>().ok()?)
            } else {
                Num::I(n.parse::<i128>().ok()?)
            };
            return Some((Pat::Cmp(op, num), ci));
        }
    }
    if rest == "*" {
        return Some((Pat::Any, ci));
    }
    let n = rest.chars().count();
    if n >= 2 && rest.starts_with('*') && rest.ends_with('*') {
        return Some((Pat::Contains(rest[1..rest.len() - 1].to_string()), ci));
    }
    if let Some(x) = rest.strip_prefix('*') {
        return Some((Pat::Ends(x.to_string()), ci));
    }
    if let Some(x) = rest.strip_suffix('*') {
        return Some((Pat::Starts(x.to_string()), ci));
    }
    if n >= 2
        && ((rest.starts_with('"') && rest.ends_with('"'))
            || (rest.starts_with('\'') && rest.ends_with('\'')))
    {
        return Some((Pat::Exact(rest[1..rest.len() - 1].to_string()), ci));
    }
    if n == 1 && (rest == "\"" || rest == "'") {
        return None; // a lone quote: not a well-formed pattern
    }
    Some((Pat::Exact(rest.to_string()), ci))
}

pub fn parse_key(k: &str) -> Option<(KeyMod, String)> {
    let k = k.trim();
    let inner = |p: &str| -> Option<String> {
        let rest = k.strip_prefix(p)?;
        let rest = rest.strip_suffix(')')?;
        Some(rest.trim().to_string())
    };
    if let Some(x) = inner("all(") {
        return Some((KeyMod::All, x));
    }
    if let Some(x) = inner("of(") {
        let mut it = x.rsplitn(2, ',');
        let n = it.next()?.trim().parse::<u64>().ok()?;
        let f = it.next()?.trim().to_string();
        return Some((KeyMod::Of(n), f));
    }
    if let Some(x) = inner("not(") {
        return Some((KeyMod::Not, x));
    }
    if let Some(x) = inner("int(") {
        return Some((KeyMod::Int, x));
    }
    if let Some(x) = inner("flt(") {
        return Some((KeyMod::Flt, x));
    }
    if let Some(x) = inner("str(") {
        return Some((KeyMod::Str, x));
    }
    if k.contains('(') || k.contains(')') || k.contains(',') {
        return None;
    }
    Some((KeyMod::Plain, k.to_string()))
}

fn parse_val(v: &Y, top: bool) -> Option<RVal> {
    Some(match v {
        Y::Bool(b) => RVal::Bool(*b),
        Y::Number(n) => {
            if let Some(i) = n.as_i64() {
                RVal::Num(Num::I(i as i128))
            } else if let Some(u) = n.as_u64() {
                RVal::Num(Num::I(u as i128))
            } else {
                RVal::Num(Num::F(n.as_f64()?))
            }
        }
        Y::Null => RVal::Null,
        Y::String(s) => {
            let (p, ci) = parse_pattern(s)?;
            RVal::Pat(p, ci)
        }
        Y::Mapping(m) => RVal::Map(parse_entries(m)?),
        Y::Sequence(s) => {
            if !top {
                return None;
            }
            RVal::List(s.iter().map(|x| parse_val(x, false)).collect::<Option<Vec<_>>>()?)
        }
        Y::Tagged(_) => return None,
    })
}

fn parse_entries(m: &serde_yaml::Mapping) -> Option<Vec<REntry>> {
    let mut out = vec![];
    for (k, v) in m {
        let k = k.as_str()?;
        let (kmod, field) = parse_key(k)?;
        out.push(REntry {
            kmod,
            field,
            val: parse_val(v, true)?,
        });
    }
    if out.is_empty() {
        return None;
    }
    Some(out)
}

fn parse_body(v: &Y) -> Option<RBody> {
    match v {
        Y::Mapping(m) => Some(RBody::Map(parse_entries(m)?)),
        Y::Sequence(s) => {
            if s.is_empty() {
                return None;
            }
            let mut rows = vec![];
            for x in s {
                rows.push(parse_entries(x.as_mapping()?)?);
            }
            Some(RBody::Seq(rows))
        }
        _ => None,
    }
}

// --- condition: tokeniser + recursive descent over the grammar stated in the property ----------

#[derive(Debug, Clone, PartialEq)]
pub enum Tok {
    And,
    Or,
    Not,
    LP,
    RP,
    Comma,
    AllOpen,
    OfOpen,
    IntOpen,
    FltOpen,
    StrOpen,
    Cmp(Op),
    Ident(String),
    I(i64),
    Fl(f64),
}

pub fn tokenise(s: &str) -> Option<Vec<Tok>> {
    let c: Vec<char> = s.chars().collect();
    let mut i = 0;
    let mut out = vec![];
    let starts = |i: usize, w: &str| -> bool {
        let w: Vec<char> = w.chars().collect();
        i + w.len() <= c.len() && c[i..i + w.len()] == w[..]
    };
    while i < c.len() {
        let ch = c[i];
        if ch == ' ' || ('\x09'..='\x0d').contains(&ch) {
            i += 1;
        } else if ch.is_ascii_digit() || ch == '.' {
            let st = i;
            while i < c.len() && (c[i].is_ascii_digit() || c[i] == '.') {
                i += 1;
            }
            let t: String = c[st..i].iter().collect();
            if t.contains('.') {
                out.push(Tok::Fl(t.parse().ok()?));
            } else {
                out.push(Tok::I(t.parse().ok()?));
            }
        } else if ch.is_ascii_alphabetic() || ch == '#' {
            let kws: [(&str, Tok); 9] = [
                ("flt(", Tok::FltOpen),
                ("int(", Tok::IntOpen),
                ("string(", Tok::StrOpen),
                ("str(", Tok::StrOpen),
                ("and ", Tok::And),
                ("or ", Tok::Or),
                ("not ", Tok::Not),
                ("all(", Tok::AllOpen),
                ("of(", Tok::OfOpen),
            ];
            let mut hit = false;
            for (w, t) in kws.iter() {
                if starts(i, w) {
                    out.push(t.clone());
                    i += w.len();
                    hit = true;
                    break;
                }
            }
            if !hit {
                if starts(i, "not(") {
                    return None; // key modifier syntax has no meaning in a condition
                }
                let st = i;
                while i < c.len()
                    && (c[i].is_alphanumeric() || matches!(c[i], '_' | '.' | '#' | '[' | ']'))
                {
                    i += 1;
                }
                out.push(Tok::Ident(c[st..i].iter().collect()));
            }
        } else {
            match ch {
                '(' => {
                    out.push(Tok::LP);
                    i += 1
                }
                ')' => {
                    out.push(Tok::RP);
                    i += 1
                }
                ',' => {
                    out.push(Tok::Comma);
                    i += 1
                }
                '=' => {
                    if starts(i, "==") {
                        out.push(Tok::Cmp(Op::Eq));
                        i += 2;
                    } else {
                        return None;
                    }
                }
                '<' => {
                    if starts(i, "<=") {
                        out.push(Tok::Cmp(Op::Le));
                        i += 2;
                    } else {
                        out.push(Tok::Cmp(Op::Lt));
                        i += 1;
                    }
                }
                '>' => {
                    if starts(i, ">=") {
                        out.push(Tok::Cmp(Op::Ge));
                        i += 2;
                    } else {
                        out.push(Tok::Cmp(Op::Gt));
                        i += 1;
                    }
                }
                _ => return None,
            }
        }
    }
    Some(out)
}

struct CP {
    t: Vec<Tok>,
    i: usize,
}
impl CP {
    fn peek(&self) -> Option<&Tok> {
        self.t.get(self.i)
    }
    fn next(&mut self) -> Option<Tok> {
        let t = self.t.get(self.i).cloned();
        self.i += 1;
        t
    }
    // and < or < comparison < not ; all left associative
    fn and(&mut self) -> Option<Cond> {
        let mut l = self.or()?;
        while self.peek() == Some(&Tok::And) {
            self.i += 1;
            let r = self.or()?;
            l = Cond::And(Box::new(l), Box::new(r));
        }
        Some(l)
    }
    fn or(&mut self) -> Option<Cond> {
        let mut l = self.unit()?;
        while self.peek() == Some(&Tok::Or) {
            self.i += 1;
            let r = self.unit()?;
            l = Cond::Or(Box::new(l), Box::new(r));
        }
        Some(l)
    }
    fn operand(&mut self) -> Option<Operand> {
        match self.next()? {
            Tok::I(i) => Some(Operand::I(i)),
            Tok::Fl(f) => Some(Operand::F(f)),
            Tok::IntOpen => {
                let f = self.field()?;
                Some(Operand::Int(f))
            }
            Tok::FltOpen => {
                let f = self.field()?;
                Some(Operand::Flt(f))
            }
            Tok::StrOpen => {
                let f = self.field()?;
                Some(Operand::Str(f))
            }
            _ => None,
        }
    }
    fn field(&mut self) -> Option<String> {
        let f = match self.next()? {
            Tok::Ident(s) => s,
            _ => return None,
        };
        if self.next()? != Tok::RP {
            return None;
        }
        Some(f)
    }
    fn unit(&mut self) -> Option<Cond> {
        match self.peek()? {
            Tok::Not => {
                self.i += 1;
                let x = self.unit_no_cmp()?;
                Some(Cond::Not(Box::new(x)))
            }
            Tok::I(_) | Tok::Fl(_) | Tok::IntOpen | Tok::FltOpen | Tok::StrOpen => {
                let l = self.operand()?;
                let op = match self.next()? {
                    Tok::Cmp(op) => op,
                    _ => return None,
                };
                let r = self.operand()?;
                Some(Cond::Cmp(l, op, r))
            }
            _ => self.unit_no_cmp(),
        }
    }
    /// the single operand a `not` applies to
    fn unit_no_cmp(&mut self) -> Option<Cond> {
        match self.next()? {
            Tok::Not => {
                let x = self.unit_no_cmp()?;
                Some(Cond::Not(Box::new(x)))
            }
            Tok::LP => {
                let x = self.and()?;
                if self.next()? != Tok::RP {
                    return None;
                }
                Some(x)
            }
            Tok::Ident(s) => Some(Cond::Ident(s)),
            Tok::AllOpen => {
                let f = self.field()?;
                Some(Cond::All(f))
            }
            Tok::OfOpen => {
                let f = match self.next()? {
                    Tok::Ident(s) => s,
                    _ => return None,
                };
                if self.next()? != Tok::Comma {
                    return None;
                }
                let n = match self.next()? {
                    Tok::I(i) if i >= 0 => i as u64,
                    _ => return None,
                };
                if self.next()? != Tok::RP {
                    return None;
                }
                Some(Cond::Of(f, n))
            }
            _ => None,
        }
    }
}

pub fn parse_condition(s: &str) -> Option<Cond> {
    let t = tokenise(s)?;
    let mut p = CP { t, i: 0 };
    let c = p.and()?;
    if p.i != p.t.len() {
        return None;
    }
    Some(c)
}

pub fn parse_rule(yaml: &str) -> Option<RefRule> {
    let v: Y = serde_yaml::from_str(yaml).ok()?;
    let det = v.get("detection")?.as_mapping()?;
    let mut idents = vec![];
    let mut cond = None;
    for (k, b) in det {
        let k = k.as_str()?;
        if k == "condition" {
            cond = Some(parse_condition(b.as_str()?)?);
        } else {
            idents.push((k.to_string(), parse_body(b)?));
        }
    }
    Some(RefRule {
        idents,
        cond: cond?,
    })
}

// ---------------------------------------------------------------------------------------------
// path resolution (C10): descend objects; name[i] = i-th element of array `name`

pub fn lookup<'a>(obj: &'a MObj, path: &str) -> Option<&'a MVal> {
    let mut cur: Option<&'a MVal> = None;
    let mut first = true;
    for seg in path.split('.') {
        let o: &MObj = if first {
            obj
        } else {
            match cur {
                Some(MVal::Obj(o)) => o,
                _ => return None,
            }
        };
        first = false;
        let (name, idx) = split_index(seg)?;
        let v = o.getm(name)?;
        cur = Some(match idx {
            None => v,
            Some(i) => match v {
                MVal::Arr(a) => a.get(i)?,
                _ => return None,
            },
        });
    }
    cur
}

/// `name` or `name[i]`; None for malformed segments
pub fn split_index(seg: &str) -> Option<(&str, Option<usize>)> {
    if seg.ends_with(']') && seg.contains('[') {
        let open = seg.find('[')?;
        let name = &seg[..open];
        let inner = &seg[open + 1..seg.len() - 1];
        let i = inner.parse::<usize>().ok()?;
        Some((name, Some(i)))
    } else {
        Some((seg, None))
    }
}

// ---------------------------------------------------------------------------------------------
// predicates

fn eq_ci(a: &str, b: &str, ci: bool) -> bool {
    if ci {
        a.eq_ignore_ascii_case(b)
    } else {
        a == b
    }
}

/// The documented string relation on one string.
pub fn str_rel(p: &Pat, ci: bool, hay: &str) -> Option<bool> {
    Some(match p {
        Pat::Any => true,
        Pat::Exact(n) => eq_ci(hay, n, ci),
        Pat::Starts(n) => {
            hay.len() >= n.len() && hay.is_char_boundary(n.len()) && eq_ci(&hay[..n.len()], n, ci)
        }
        Pat::Ends(n) => {
            hay.len() >= n.len()
                && hay.is_char_boundary(hay.len() - n.len())
                && eq_ci(&hay[hay.len() - n.len()..], n, ci)
        }
        Pat::Contains(n) => {
            if n.is_empty() {
                true
            } else {
                let mut found = false;
                for (i, _) in hay.char_indices().chain(std::iter::once((hay.len(), ' '))) {
                    if i + n.len() <= hay.len()
                        && hay.is_char_boundary(i + n.len())
                        && eq_ci(&hay[i..i + n.len()], n, ci)
                    {
                        found = true;
                        break;
                    }
                }
                found
            }
        }
        Pat::Regex(src) => match rx::parse(src, ci) {
            Some(r) => r.is_match(hay),
            None => {
                // outside the enumerated subset: the regex crate is the (trusted) oracle
                regex::RegexBuilder::new(src)
                    .case_insensitive(ci)
                    .build()
                    .ok()?
                    .is_match(hay)
            }
        },
        Pat::Cmp(_, _) => return None,
    })
}

fn b2s(b: bool) -> u8 {
    if b {
        T
    } else {
        F
    }
}

fn scalar_to_string(v: &MVal) -> Option<String> {
    Some(match v {
        MVal::Bool(b) => b.to_string(),
        MVal::Int(i) => i.to_string(),
        MVal::UInt(u) => u.to_string(),
        MVal::Float(f) => f.to_string(),
        MVal::Str(s) => s.clone(),
        _ => return None,
    })
}

/// exact comparison of two numbers of possibly different kinds; None when unordered (NaN)
pub fn num_cmp(a: &Num2, b: &Num2) -> Option<std::cmp::Ordering> {
    use std::cmp::Ordering::*;
    match (a, b) {
        (Num2::Int(x), Num2::Int(y)) => Some(x.cmp(y)),
        (Num2::Flt(x), Num2::Flt(y)) => x.partial_cmp(y),
        (Num2::Int(x), Num2::Flt(y)) => cmp_int_float(*x, *y),
        (Num2::Flt(x), Num2::Int(y)) => cmp_int_float(*y, *x).map(|o| match o {
            Less => Greater,
            Greater => Less,
            Equal => Equal,
        }),
    }
}
fn cmp_int_float(i: i128, f: f64) -> Option<std::cmp::Ordering> {
    use std::cmp::Ordering::*;
    if f.is_nan() {
        return None;
    }
    if f == f64::INFINITY {
        return Some(Less);
    }
    if f == f64::NEG_INFINITY {
        return Some(Greater);
    }
    // |f| < 2^127 for every finite double that can be near an i128 we use (64-bit range)
    if f >= 1.7e38 {
        return Some(Less);
    }
    if f <= -1.7e38 {
        return Some(Greater);
    }
    let fl = f.floor();
    let fi = fl as i128;
    match i.cmp(&fi) {
        Equal => {
            if f > fl {
                Some(Less)
            } else {
                Some(Equal)
            }
        }
        o => Some(o),
    }
}

#[derive(Debug, Clone, Copy, PartialEq)]
pub enum Num2 {
    Int(i128),
    Flt(f64),
}

fn op_holds(op: Op, o: Option<std::cmp::Ordering>) -> bool {
    use std::cmp::Ordering::*;
    match (op, o) {
        (_, None) => false,
        (Op::Eq, Some(x)) => x == Equal,
        (Op::Gt, Some(x)) => x == Greater,
        (Op::Ge, Some(x)) => x != Less,
        (Op::Lt, Some(x)) => x == Less,
        (Op::Le, Some(x)) => x != Greater,
    }
}

fn field_num(v: &MVal) -> Option<(Num2, u8)> {
    // (value, kind) kind: 0 int-like, 1 float
    match v {
        MVal::Int(i) => Some((Num2::Int(*i as i128), 0)),
        MVal::UInt(u) => Some((Num2::Int(*u as i128), 0)),
        MVal::Float(f) => Some((Num2::Flt(*f), 1)),
        _ => None,
    }
}

/// int() cast: the set of integers the cast may yield (rounding direction is not specified);
/// Err(()) = not convertible (the comparison is then false)
pub enum CastI {
    /// the integers the cast may yield
    Cands(Vec<i128>),
    /// a finite or infinite double outside the i64 range: "not convertible" (false), but a
    /// verdict that is true because the relation holds for the real value is not a wrap-around
    Real(f64),
    /// not convertible: every comparison is false
    No,
}
fn cast_int(v: &MVal) -> CastI {
    match v {
        MVal::Bool(b) => CastI::Cands(vec![*b as i128]),
        MVal::Int(i) => CastI::Cands(vec![*i as i128]),
        MVal::UInt(u) => {
            if *u <= i64::MAX as u64 {
                CastI::Cands(vec![*u as i128])
            } else {
                CastI::No
            }
        }
        MVal::Float(f) => {
            if f.is_nan() {
                return CastI::No;
            }
            if f.is_infinite() {
                return CastI::Real(*f);
            }
            let mut out = vec![];
            let mut outside = false;
            for c in [f.round(), f.floor(), f.ceil(), f.trunc()] {
                if c >= -9223372036854775808.0 && c < 9223372036854775808.0 {
                    let i = c as i128;
                    if !out.contains(&i) {
                        out.push(i);
                    }
                } else {
                    outside = true;
                }
            }
            if out.is_empty() || outside {
                CastI::Real(*f)
            } else {
                CastI::Cands(out)
            }
        }
        MVal::Str(s) => match s.parse::<i64>() {
            Ok(i) => CastI::Cands(vec![i as i128]),
            Err(_) => CastI::No,
        },
        _ => CastI::No,
    }
}
fn cast_flt(v: &MVal) -> Result<f64, ()> {
    match v {
        MVal::Bool(b) => Ok(if *b { 1.0 } else { 0.0 }),
        MVal::Int(i) => Ok(*i as f64),
        MVal::UInt(u) => Ok(*u as f64),
        MVal::Float(f) => Ok(*f),
        MVal::Str(s) => s.parse::<f64>().map_err(|_| ()),
        _ => Err(()),
    }
}

/// numeric predicate `field op constant` under a key modifier
fn num_pred(kmod: &KeyMod, op: Op, c: &Num, v: &MVal) -> u8 {
    let cn = match c {
        Num::I(i) => Num2::Int(*i as i128),
        Num::F(f) => Num2::Flt(*f),
    };
    match kmod {
        KeyMod::Int => match cast_int(v) {
            CastI::No => F,
            CastI::Real(x) => {
                F | if op_holds(op, num_cmp(&Num2::Flt(x), &cn)) {
                    T
                } else {
                    0
                }
            }
            CastI::Cands(cands) => {
                let mut r = 0;
                for i in cands {
                    let holds = op_holds(op, num_cmp(&Num2::Int(i), &cn));
                    match c {
                        Num::I(_) => r |= b2s(holds),
                        // an int cast against a float constant: cross kind
                        Num::F(_) => r |= NT | if holds { T } else { 0 },
                    }
                }
                r
            }
        },
        KeyMod::Flt => match cast_flt(v) {
            Err(()) => F,
            Ok(x) => {
                let holds = op_holds(op, num_cmp(&Num2::Flt(x), &cn));
                match c {
                    Num::F(_) => b2s(holds),
                    Num::I(_) => NT | if holds { T } else { 0 },
                }
            }
        },
        _ => match v {
            MVal::Arr(_) => NT,
            _ => match field_num(v) {
                None => NT,
                Some((x, kind)) => {
                    let holds = op_holds(op, num_cmp(&x, &cn));
                    let same = matches!((kind, c), (0, Num::I(_)) | (1, Num::F(_)));
                    if same {
                        b2s(holds)
                    } else {
                        NT | if holds { T } else { 0 }
                    }
                }
            },
        },
    }
}

/// string predicate on a present field value
fn str_pred(p: &Pat, ci: bool, cast: bool, v: &MVal) -> u8 {
    match v {
        MVal::Str(s) => match str_rel(p, ci, s) {
            Some(b) => b2s(b),
            None => ANY,
        },
        MVal::Arr(a) => {
            let mut any = false;
            for x in a {
                let text = match x {
                    MVal::Str(s) => Some(s.clone()),
                    other if cast => scalar_to_string(other),
                    _ => None,
                };
                if let Some(t) = text {
                    match str_rel(p, ci, &t) {
                        Some(true) => any = true,
                        Some(false) => {}
                        None => return ANY,
                    }
                }
            }
            b2s(any)
        }
        MVal::Bool(_) | MVal::Int(_) | MVal::UInt(_) | MVal::Float(_) => {
            if cast {
                match str_rel(p, ci, &scalar_to_string(v).unwrap()) {
                    Some(b) => b2s(b),
                    None => ANY,
                }
            } else {
                NT
            }
        }
        MVal::Null | MVal::Obj(_) => NT,
    }
}

/// one value (not a list) applied to the field value `fv` (None = absent)
fn eval_single(kmod: &KeyMod, val: &RVal, fv: Option<&MVal>) -> u8 {
    // null under a cast modifier (`int(f): null`) has no documented meaning at all
    if matches!(val, RVal::Null) && matches!(kmod, KeyMod::Int | KeyMod::Flt | KeyMod::Str) {
        return ANY;
    }
    let v = match fv {
        None => return M,
        Some(v) => v,
    };
    match val {
        RVal::Bool(b) => match kmod {
            KeyMod::Int => num_pred(kmod, Op::Eq, &Num::I(*b as i128), v),
            KeyMod::Str => str_pred(&Pat::Exact(b.to_string()), false, true, v),
            KeyMod::Flt => ANY,
            _ => match v {
                MVal::Bool(x) => b2s(x == b),
                _ => NT,
            },
        },
        RVal::Num(n) => match kmod {
            KeyMod::Str => {
                let text = match n {
                    Num::I(i) => i.to_string(),
                    Num::F(f) => f.to_string(),
                };
                str_pred(&Pat::Exact(text), false, true, v)
            }
            _ => num_pred(kmod, Op::Eq, n, v),
        },
        RVal::Null => match v {
            MVal::Null => T,
            _ => NT,
        },
        RVal::Pat(p, ci) => match p {
            Pat::Cmp(op, n) => num_pred(kmod, *op, n, v),
            _ => str_pred(p, *ci, *kmod == KeyMod::Str, v),
        },
        RVal::Map(entries) => match v {
            MVal::Obj(o) => eval_entries(entries, o),
            MVal::Arr(a) => {
                // existential over the object elements
                let mut r = 0u8;
                let mut can_t = false;
                let mut must_t = false;
                for x in a {
                    if let MVal::Obj(o) = x {
                        let s = eval_entries(entries, o);
                        if s & T != 0 {
                            can_t = true;
                        }
                        if s == T {
                            must_t = true;
                        }
                    }
                }
                if can_t {
                    r |= T;
                }
                if !must_t {
                    r |= NT;
                }
                r
            }
            _ => NT,
        },
        RVal::List(_) => ANY,
    }
}

fn eval_entry(e: &REntry, obj: &MObj) -> u8 {
    let fv = lookup(obj, &e.field);
    let inner_mod = match e.kmod {
        KeyMod::Not | KeyMod::All | KeyMod::Of(_) => KeyMod::Plain,
        ref m => m.clone(),
    };
    let res = match &e.val {
        RVal::List(members) => {
            let sets: Vec<u8> = members
                .iter()
                .map(|m| eval_single(&inner_mod, m, fv))
                .collect();
            let on_array = matches!(fv, Some(MVal::Arr(_)));
            // A quantified list on an ARRAY field: the documentation does not say whether the
            // members are counted per element or across elements. Both readings agree on one
            // bound, and only that is asserted: the quantifier cannot hold unless enough *distinct
            // members* are matched by the field at all (`sets` is each member against the whole
            // field, i.e. existential over the elements for the kinds that look into arrays).
            let bounded = |across: u8| -> u8 {
                if across & T == 0 {
                    ANY & !T
                } else {
                    ANY
                }
            };
            match e.kmod {
                KeyMod::All => {
                    if on_array {
                        bounded(s_all(&sets))
                    } else {
                        s_all(&sets)
                    }
                }
                KeyMod::Of(n) => {
                    if on_array && n >= 1 {
                        bounded(s_of(&sets, n))
                    } else if on_array {
                        ANY
                    } else {
                        s_of(&sets, n)
                    }
                }
                _ => s_or(&sets),
            }
        }
        single => eval_single(&inner_mod, single, fv),
    };
    if e.kmod == KeyMod::Not {
        s_not(res)
    } else {
        res
    }
}

pub fn eval_entries(entries: &[REntry], obj: &MObj) -> u8 {
    let sets: Vec<u8> = entries.iter().map(|e| eval_entry(e, obj)).collect();
    s_and(&sets)
}

pub fn eval_body(b: &RBody, obj: &MObj) -> u8 {
    match b {
        RBody::Map(m) => eval_entries(m, obj),
        RBody::Seq(rows) => s_or(&rows.iter().map(|r| eval_entries(r, obj)).collect::<Vec<_>>()),
    }
}

/// the operand sets a quantifier over identifier `b` counts; None = not specified
fn quant_operands(b: &RBody, obj: &MObj) -> Option<Vec<u8>> {
    match b {
        RBody::Seq(rows) => Some(rows.iter().map(|r| eval_entries(r, obj)).collect()),
        RBody::Map(m) => {
            if m.len() >= 2 {
                Some(m.iter().map(|e| eval_entry(e, obj)).collect())
            } else {
                match &m[0].val {
                    RVal::List(_) => None,
                    _ => Some(vec![eval_entry(&m[0], obj)]),
                }
            }
        }
    }
}

fn operand_val<'a>(o: &Operand, obj: &'a MObj) -> Result<OpV, u8> {
    // Err(M) when the field is absent
    match o {
        Operand::I(i) => Ok(OpV::Ints(vec![*i as i128])),
        Operand::F(f) => Ok(OpV::Flt(*f)),
        Operand::Int(f) => match lookup(obj, f) {
            None => Err(M),
            Some(v) => match cast_int(v) {
                CastI::Cands(c) => Ok(OpV::Ints(c)),
                CastI::Real(x) => Ok(OpV::Real(x)),
                CastI::No => Err(F),
            },
        },
        Operand::Flt(f) => match lookup(obj, f) {
            None => Err(M),
            Some(v) => match cast_flt(v) {
                Ok(c) => Ok(OpV::Flt(c)),
                Err(()) => Err(F),
            },
        },
        Operand::Str(f) => match lookup(obj, f) {
            None => Err(M),
            Some(v) => match scalar_to_string(v) {
                Some(s) => Ok(OpV::Str(s)),
                None => Err(F),
            },
        },
    }
}

enum OpV {
    Ints(Vec<i128>),
    Real(f64),
    Flt(f64),
    Str(String),
}

fn eval_cmp(l: &Operand, op: Op, r: &Operand, obj: &MObj) -> u8 {
    let lv = match operand_val(l, obj) {
        Ok(v) => v,
        Err(x) => {
            if x == F {
                // the other side may still be missing; which of the two is reported first is
                // the engine's business
                return match operand_val(r, obj) {
                    Err(M) => NT,
                    _ => F,
                };
            }
            return x;
        }
    };
    let rv = match operand_val(r, obj) {
        Ok(v) => v,
        Err(x) => {
            // an out-of-range left operand may already have been reported as "not convertible"
            if x == M && matches!(lv, OpV::Real(_)) {
                return NT;
            }
            return x;
        }
    };
    match (lv, rv) {
        (OpV::Ints(a), OpV::Ints(b)) => {
            let mut s = 0;
            for x in &a {
                for y in &b {
                    s |= b2s(op_holds(op, Some(x.cmp(y))));
                }
            }
            s
        }
        (OpV::Real(a), OpV::Ints(b)) => {
            let mut s = F;
            for y in &b {
                if op_holds(op, num_cmp(&Num2::Flt(a), &Num2::Int(*y))) {
                    s |= T;
                }
            }
            s
        }
        (OpV::Ints(a), OpV::Real(b)) => {
            let mut s = F;
            for x in &a {
                if op_holds(op, num_cmp(&Num2::Int(*x), &Num2::Flt(b))) {
                    s |= T;
                }
            }
            s
        }
        (OpV::Real(a), OpV::Real(b)) => {
            F | if op_holds(op, a.partial_cmp(&b)) { T } else { 0 }
        }
        (OpV::Flt(a), OpV::Flt(b)) => b2s(op_holds(op, a.partial_cmp(&b))),
        (OpV::Str(a), OpV::Str(b)) => {
            if op == Op::Eq {
                b2s(a == b)
            } else {
                ANY
            }
        }
        _ => ANY,
    }
}

pub fn eval_cond(c: &Cond, rule: &RefRule, obj: &MObj) -> u8 {
    match c {
        Cond::Ident(i) => match rule.idents.iter().find(|(k, _)| k == i) {
            Some((_, b)) => eval_body(b, obj),
            None => ANY,
        },
        Cond::Not(x) => s_not(eval_cond(x, rule, obj)),
        Cond::And(l, r) => s_and2(eval_cond(l, rule, obj), eval_cond(r, rule, obj)),
        Cond::Or(l, r) => s_or2(eval_cond(l, rule, obj), eval_cond(r, rule, obj)),
        Cond::All(i) => match rule.idents.iter().find(|(k, _)| k == i) {
            Some((_, b)) => match quant_operands(b, obj) {
                Some(v) => s_all(&v),
                None => ANY,
            },
            None => ANY,
        },
        Cond::Of(i, n) => match rule.idents.iter().find(|(k, _)| k == i) {
            Some((_, b)) => match quant_operands(b, obj) {
                Some(v) => s_of(&v, *n),
                None => ANY,
            },
            None => ANY,
        },
        Cond::Cmp(l, op, r) => eval_cmp(l, *op, r, obj),
    }
}

pub fn eval_rule(rule: &RefRule, obj: &MObj) -> u8 {
    eval_cond(&rule.cond, rule, obj)
}
