//! `tv --replay <file>`: re-executes one recorded case without any explorer and prints both sides.

use serde_json::Value as J;
use tau_engine::core::parser::{parse_identifier, IdentifierParser, Tokeniser};
use tau_engine::{Object, Rule};

use crate::c03::AdvDoc;
use crate::eng;
use crate::mdoc::{self, MObj};
use crate::optrep::{self, Det};
use crate::refint;
use crate::report::{catch, mobj_from_json};

fn doc_of(j: &J, key: &str) -> Option<MObj> {
    j.get(key).and_then(mobj_from_json)
}

fn show3(r: Result<i8, String>) -> String {
    match r {
        Ok(v) => eng::v3name(v).to_string(),
        Err(e) => format!("PANIC({})", e),
    }
}

pub fn run(path: &str) -> i32 {
    let txt = match std::fs::read_to_string(path) {
        Ok(t) => t,
        Err(e) => {
            eprintln!("cannot read {}: {}", path, e);
            return 2;
        }
    };
    let j: J = match serde_json::from_str(&txt) {
        Ok(j) => j,
        Err(e) => {
            eprintln!("{} is not JSON: {}", path, e);
            return 2;
        }
    };
    let kind = j.get("kind").and_then(|k| k.as_str()).unwrap_or("");
    println!("replay of {} (property {}, kind {})", path, j.get("property").and_then(|p| p.as_str()).unwrap_or("?"), kind);
    if let Some(s) = j.get("signature").and_then(|s| s.as_str()) {
        println!("recorded signature: {}", s);
    }
    if let Some(w) = j.get("witness").and_then(|s| s.as_str()) {
        println!("recorded witness  : {}", w);
    }
    let rule_yaml = j.get("rule_yaml").and_then(|r| r.as_str());
    let doc = doc_of(&j, "document");
    let sw = j.get("sw_bits").and_then(|s| s.as_u64()).map(|s| s as u8);
    let choices: Vec<u32> = j
        .get("hash_order_choices")
        .and_then(|c| c.as_array())
        .map(|a| a.iter().filter_map(|x| x.as_u64()).map(|x| x as u32).collect())
        .unwrap_or_default();
    match kind {
        "pattern" => {
            let p = j.get("pattern").and_then(|p| p.as_str()).unwrap_or("").to_string();
            let r = catch(move || p.into_identifier().map(|i| format!("{:?}", i.pattern)));
            println!("into_identifier -> {:?}", r);
            return 0;
        }
        "tokenise" => {
            let p = j.get("text").and_then(|p| p.as_str()).unwrap_or("").to_string();
            let r = catch(move || p.tokenise().map(|t| format!("{:?}", t)).map_err(|e| e.to_string()));
            println!("tokenise -> {:?}", r);
            return 0;
        }
        "key" => {
            let k = j.get("key").and_then(|p| p.as_str()).unwrap_or("").to_string();
            let mut m = serde_yaml::Mapping::new();
            m.insert(serde_yaml::Value::String(k), serde_yaml::Value::String("x".into()));
            let y = serde_yaml::Value::Mapping(m);
            let r = catch(|| parse_identifier(&y).map(|e| e.to_string()).map_err(|e| e.to_string()));
            println!("parse_identifier -> {:?}", r);
            return 0;
        }
        "find" => {
            let p = j.get("path").and_then(|p| p.as_str()).unwrap_or("");
            if let Some(d) = &doc {
                let want = refint::lookup(d, p).map(|v| v.show());
                println!("reference resolver : {:?}", want);
                let y = mdoc::to_yaml_map(d);
                let a = catch(|| Object::find(d, p).map(|v| crate::c10::value_to_mval(&v, 0).show()));
                let b = catch(|| Object::find(&y, p).map(|v| crate::c10::value_to_mval(&v, 0).show()));
                println!("hand-written Object: {:?}", a);
                println!("serde_yaml Mapping : {:?}", b);
            }
            return 0;
        }
        "identifier-order" => {
            if let (Some(y), Some(sw)) = (rule_yaml, sw) {
                println!("--- rule ---\n{}", y);
                if let Ok(rule) = eng::load(y) {
                    for key in ["order_a", "order_b"] {
                        let p: Vec<usize> = j.get(key).and_then(|c| c.as_array()).map(|a| a.iter().filter_map(|x| x.as_u64()).map(|x| x as usize).collect()).unwrap_or_default();
                        match eng::with_identifier_order(&rule, &p).and_then(|r| eng::optimise_with(&r, sw, &[]).ok()) {
                            Some((o, _)) => {
                                println!("identifiers iterating as {:?}: optimise({}) = {}", p, eng::sw_name(sw), eng::canon(&o));
                                if let Some(d) = &doc {
                                    println!("    on {}: {}", d.show(), show3(eng::val3(&o, d)));
                                }
                            }
                            None => println!("order {:?} could not be realised / optimise panicked", p),
                        }
                    }
                }
            }
            return 0;
        }
        "pass-order" => {
            let seq: Vec<usize> = j.get("passes").and_then(|c| c.as_array()).map(|a| a.iter().filter_map(|x| x.as_u64()).map(|x| x as usize).collect()).unwrap_or_default();
            if let Some(y) = rule_yaml {
                println!("--- rule ---\n{}", y);
                if let Ok(rule) = eng::load(y) {
                    let mut cur = Det::of_rule(&rule);
                    println!("unoptimised: {} {}", cur.canon(), doc.as_ref().map(|d| show3(cur.val3(d))).unwrap_or_default());
                    for p in &seq {
                        let c2 = cur.clone();
                        let pp = *p;
                        match catch(move || optrep::apply_pass(c2, pp)) {
                            Ok(d) => cur = d,
                            Err(m) => {
                                println!("{} panics: {}", optrep::PASSES[*p], m);
                                return 0;
                            }
                        }
                        println!("after {:8}: {} {}", optrep::PASSES[*p], cur.canon(), doc.as_ref().map(|d| show3(cur.val3(d))).unwrap_or_default());
                    }
                    let set: u8 = seq.iter().fold(0, |a, p| a | (1 << p));
                    let st = optrep::optimise_replica(&Det::of_rule(&rule), set, &[]);
                    if let Some((_, last)) = st.stages.last() {
                        println!("standard order of the same passes: {} {}", last.canon(), doc.as_ref().map(|d| show3(last.val3(d))).unwrap_or_default());
                    }
                }
            }
            return 0;
        }
        "optimise-sequence" => {
            let seq: Vec<u8> = j.get("switch_sequence").and_then(|c| c.as_array()).map(|a| a.iter().filter_map(|x| x.as_u64()).map(|x| x as u8).collect()).unwrap_or_default();
            let docs: Vec<MObj> = j.get("documents").and_then(|d| d.as_array()).map(|a| a.iter().filter_map(mobj_from_json).collect()).unwrap_or_default();
            if let Some(y) = rule_yaml {
                println!("--- rule ---\n{}", y);
                if let Ok(r) = eng::load(y) {
                    let show = |r: &Rule, sw: u8| match eng::optimise_with(r, sw, &[]) {
                        Ok((o, _)) => format!("{} verdicts {:?}", eng::canon(&o), docs.iter().map(|d| eng::matches(&o, d)).collect::<Vec<_>>()),
                        Err(p) => format!("PANIC {}", p),
                    };
                    for sw in &seq {
                        println!("optimise({}) in sequence: {}", eng::sw_name(*sw), show(&r, *sw));
                    }
                    if let Some(last) = seq.last() {
                        let (y2, l2) = (y.to_string(), *last);
                        let docs2 = docs.clone();
                        let alone = std::thread::spawn(move || {
                            eng::load(&y2).ok().map(|r| match eng::optimise_with(&r, l2, &[]) {
                                Ok((o, _)) => format!("{} verdicts {:?}", eng::canon(&o), docs2.iter().map(|d| eng::matches(&o, d)).collect::<Vec<_>>()),
                                Err(p) => format!("PANIC {}", p),
                            })
                        })
                        .join()
                        .ok()
                        .flatten();
                        println!("optimise({}) alone on a fresh thread: {}", eng::sw_name(*last), alone.unwrap_or_default());
                    }
                }
            }
            return 0;
        }
        "api-history" => {
            let ops: Vec<u8> = j.get("ops").and_then(|c| c.as_array()).map(|a| a.iter().filter_map(|x| x.as_u64()).map(|x| x as u8).collect()).unwrap_or_default();
            let docs: Vec<MObj> = j.get("documents").and_then(|d| d.as_array()).map(|a| a.iter().filter_map(mobj_from_json).collect()).unwrap_or_default();
            if let (Some(y), Some(sw)) = (rule_yaml, sw) {
                println!("--- rule ---\n{}", y);
                if docs.len() >= 3 {
                    crate::c12::replay_api_history(y, sw, &docs, &ops);
                }
            }
            return 0;
        }
        "load-history" => {
            let ops: Vec<u8> = j.get("ops").and_then(|c| c.as_array()).map(|a| a.iter().filter_map(|x| x.as_u64()).map(|x| x as u8).collect()).unwrap_or_default();
            crate::c12::replay_load_history(&ops);
            return 0;
        }
        "validate-history" => {
            let ops: Vec<u8> = j.get("ops").and_then(|c| c.as_array()).map(|a| a.iter().filter_map(|x| x.as_u64()).map(|x| x as u8).collect()).unwrap_or_default();
            let names: Vec<&str> = ops.iter().map(|o| crate::c13::HIST_OPS[*o as usize]).collect();
            println!("operations on one rule value: {:?}", names);
            if let (Some(y), Some(p), Some(n)) = (rule_yaml, doc_of(&j, "positive"), doc_of(&j, "negative")) {
                println!("--- rule ---\n{}", y);
                match crate::c13::run_history(y, &p, &n, &ops) {
                    Some((real, fresh)) => println!("validate() on the edited value : {}\nvalidate() on a fresh rule      : {}", real, fresh),
                    None => println!("base rule does not load"),
                }
            }
            return 0;
        }
        "condition" => {
            let c = j.get("condition").and_then(|p| p.as_str()).unwrap_or("");
            println!("condition {:?} (load through the rule text below when present)", c);
        }
        _ => {}
    }
    let yaml = match rule_yaml {
        Some(y) => y,
        None => {
            println!("(no rule text recorded for this kind; see the fields of the file)");
            return 0;
        }
    };
    println!("--- rule ---\n{}", yaml);
    let rule = match catch(|| Rule::from_str(yaml)) {
        Ok(Ok(r)) => r,
        Ok(Err(e)) => {
            println!("load -> Err({})", e);
            return 0;
        }
        Err(p) => {
            println!("load -> PANIC({})", p);
            return 0;
        }
    };
    println!("load -> Ok ; tree: {}", eng::canon(&rule));
    if let Some(rr) = refint::parse_rule(yaml) {
        if let Some(d) = &doc {
            println!("reference interpreter on {}: {}", d.show(), refint::set_name(refint::eval_rule(&rr, d)));
        }
    }
    if let Some(d) = &doc {
        println!("unoptimised on {}: {} (matches {:?})", d.show(), show3(eng::val3(&rule, d)), eng::matches(&rule, d));
    }
    if let Some(sw) = sw {
        let base = Det::of_rule(&rule);
        let st = optrep::optimise_replica(&base, sw, &choices);
        for (pass, det) in &st.stages {
            let name = if *pass < 4 { optrep::PASSES[*pass] } else { "input" };
            let v = doc.as_ref().map(|d| show3(det.val3(d))).unwrap_or_default();
            println!("after {:8}: {} {}", name, det.canon(), v);
        }
        if let Some((p, m)) = &st.panic {
            println!("optimise panics in {}: {}", optrep::PASSES[*p], m);
        }
        match eng::optimise_with(&rule, sw, &choices) {
            Ok((r, _)) => {
                println!("Rule::optimise({}): {}", eng::sw_name(sw), eng::canon(&r));
                if let Some(d) = &doc {
                    println!("optimised on {}: {} (matches {:?})", d.show(), show3(eng::val3(&r, d)), eng::matches(&r, d));
                    if let (Some(last), true) = (st.stages.last(), st.panic.is_none()) {
                        let _ = last;
                        println!("localiser signature: {}", optrep::localise(&st, d));
                    }
                }
                if kind == "validate" {
                    println!("validate() -> {:?}", catch(|| r.validate().map_err(|e| e.to_string())));
                }
                if kind == "adversarial" {
                    let ans: Vec<u32> = j
                        .get("answer_choices")
                        .and_then(|c| c.as_array())
                        .map(|a| a.iter().filter_map(|x| x.as_u64()).map(|x| x as u32).collect())
                        .unwrap_or_default();
                    for th in [false, true] {
                        let adv = AdvDoc::new(crate::c03::answers(th));
                        if ans.iter().all(|c| (*c as usize) < adv.answers.len() + 2) {
                            tau_engine::verif::set_script(ans.clone());
                            let res = catch(|| r.matches(&adv));
                            let _ = tau_engine::verif::take_trace();
                            println!("adversarial answers {:?} (alphabet thorough={}): matches -> {:?}", ans, th, res);
                        }
                    }
                }
                if kind == "history" {
                    let docs: Vec<MObj> = j
                        .get("documents")
                        .and_then(|d| d.as_array())
                        .map(|a| a.iter().filter_map(mobj_from_json).collect())
                        .unwrap_or_default();
                    let seq: Vec<usize> = j
                        .get("sequence")
                        .and_then(|d| d.as_array())
                        .map(|a| a.iter().filter_map(|x| x.as_u64()).map(|x| x as usize).collect())
                        .unwrap_or_default();
                    for i in seq {
                        if let Some(d) = docs.get(i) {
                            println!("history step doc#{} {} -> {:?}", i, d.show(), eng::matches(&r, d));
                        }
                    }
                }
                if kind == "roundtrip" {
                    match serde_yaml::to_string(&r) {
                        Ok(t) => {
                            println!("--- serialised ---\n{}", t);
                            match catch(|| Rule::from_str(&t)) {
                                Ok(Ok(b)) => println!("reloaded tree: {}", eng::canon(&b)),
                                other => println!("reload -> {:?}", other.map(|x| x.map(|_| ()).map_err(|e| e.to_string()))),
                            }
                        }
                        Err(e) => println!("serialise -> Err({})", e),
                    }
                }
            }
            Err(p) => println!("Rule::optimise({}) PANIC: {}", eng::sw_name(sw), p),
        }
    } else if kind == "validate" {
        println!("validate() -> {:?}", catch(|| rule.validate().map_err(|e| e.to_string())));
    }
    if let Some(p) = j.get("permuted_rule_yaml").and_then(|p| p.as_str()) {
        println!("--- permuted rule ---\n{}", p);
        if let (Ok(r2), Some(d)) = (eng::load(p), &doc) {
            println!("permuted on {}: {}", d.show(), show3(eng::val3(&r2, d)));
        }
    }
    if let Some(p) = j.get("prefixed_rule_yaml").and_then(|p| p.as_str()) {
        println!("--- i-prefixed rule (default build side) ---\n{}", p);
        println!("ignore_case row: {:?}\ndefault row    : {:?}", j.get("ignore_case_row"), j.get("default_row"));
    }
    0
}
