//! C08: list quantifiers count the members the author wrote (quantified form vs written-out form).

use std::collections::HashMap;

use rayon::prelude::*;
use serde_json::json;

use crate::c01::one_line;
use crate::eng;
use crate::mdoc::{obj, s, MObj, MVal};
use crate::refint;
use crate::report::{Report, Stats, Tier, Violation};

#[derive(Clone, Copy, PartialEq, Eq, Debug, Hash)]
enum Class {
    Str,
    Num,
    Bool,
    Map,
}

/// (yaml text of the member, class)
fn members() -> Vec<(&'static str, Class)> {
    vec![
        ("\"*a*\"", Class::Str),
        ("\"*b*\"", Class::Str),
        ("\"a*\"", Class::Str),
        ("\"*c\"", Class::Str),
        ("\"x\"", Class::Str),
        ("\"\"", Class::Str),
        ("\"ia\"", Class::Str),
        ("\"i*B*\"", Class::Str),
        ("\"?a\"", Class::Str),
        ("\"?b\"", Class::Str),
        ("\"i?c\"", Class::Str),
        ("\"?a.*\"", Class::Str),
        ("\"?.*a\"", Class::Str),
        ("1", Class::Num),
        ("2", Class::Num),
        ("\">1\"", Class::Num),
        ("1.5", Class::Num),
        ("\"<=2\"", Class::Num),
        ("true", Class::Bool),
        ("false", Class::Bool),
        ("{x: a}", Class::Map),
        ("{x: \"b*\"}", Class::Map),
        ("{x: [a, c]}", Class::Map),
    ]
}

fn docs() -> Vec<MObj> {
    let mut out = vec![MObj::new()];
    let alpha = ["a", "b", "c", "x"];
    let mut cur = vec![String::new()];
    let mut all = vec![String::new()];
    for _ in 0..3 {
        let mut next = vec![];
        for c in &cur {
            for a in alpha {
                next.push(format!("{}{}", c, a));
            }
        }
        all.extend(next.iter().cloned());
        cur = next;
    }
    for t in all {
        out.push(MObj::new().with("f", s(&t)));
    }
    out.push(MObj::new().with("f", s("AB")));
    // values with multi-byte characters: offsets inside the value are bytes, not characters
    for t in ["aé", "éa", "éc", "aéc", "xé", "é", "ab€", "€bc", "aÉb"] {
        out.push(MObj::new().with("f", s(t)));
    }
    out.push(MObj::new().with("f", s("")));
    for v in [
        MVal::Int(1),
        MVal::Int(2),
        MVal::Int(3),
        MVal::UInt(2),
        MVal::Float(1.5),
        MVal::Bool(true),
        MVal::Bool(false),
        MVal::Null,
        obj(vec![("x", s("a"))]),
        obj(vec![("x", s("b"))]),
        obj(vec![("x", s("c"))]),
        obj(vec![]),
    ] {
        out.push(MObj::new().with("f", v));
    }
    out
}

fn rule(idents: &[(String, String)], cond: &str) -> String {
    let mut out = String::from("detection:\n");
    for (k, b) in idents {
        out.push_str(&format!("  {}: {}\n", k, b));
    }
    out.push_str(&format!(
        "  condition: \"{}\"\ntrue_positives: []\ntrue_negatives: []\n",
        cond
    ));
    out
}

struct Ctx {
    docs: Vec<MObj>,
    /// verdict vector of the one-member rule `M: {f: m}` per member text
    single: HashMap<String, Vec<bool>>,
}

fn bit(v: i8) -> u8 {
    match v {
        1 => refint::T,
        0 => refint::F,
        -1 => refint::M,
        _ => 0,
    }
}

fn check_list(list: &[(&'static str, Class)], ctx: &Ctx) -> Stats {
    let mut st = Stats::default();
    let k = list.len();
    let texts: Vec<&str> = list.iter().map(|m| m.0).collect();
    let yl = format!("[{}]", texts.join(", "));
    let singles: Vec<&Vec<bool>> = texts.iter().map(|t| &ctx.single[*t]).collect();
    let mut classes: Vec<Class> = list.iter().map(|m| m.1).collect();
    classes.dedup();
    let homogeneous = {
        let mut c: Vec<Class> = list.iter().map(|m| m.1).collect();
        c.sort_by_key(|x| *x as u8);
        c.dedup();
        c.len() == 1
    };
    let cname = if homogeneous {
        format!("{:?}", list[0].1)
    } else {
        "Mixed".to_string()
    };
    // written out with one-member identifiers
    let ms: Vec<(String, String)> = texts
        .iter()
        .enumerate()
        .map(|(i, t)| (format!("M{}", i + 1), format!("{{f: {}}}", t)))
        .collect();
    let names: Vec<String> = (1..=k).map(|i| format!("M{}", i)).collect();
    let written_or = eng::load(&rule(&ms, &names.join(" or ")));
    let written_and = eng::load(&rule(&ms, &names.join(" and ")));
    let written_none = eng::load(&rule(&ms, &format!("not ({})", names.join(" or "))));
    let (w_or, w_and, w_none) = match (written_or, written_and, written_none) {
        (Ok(a), Ok(b), Ok(c)) => (a, b, c),
        _ => {
            st.count("written_out_form_rejected", 1);
            return st;
        }
    };
    // quantified forms: (label, yaml, expected-kind) ; expected-kind: 0 any, 1 all, 2 of(n)
    let mut forms: Vec<(String, String, u8, usize)> = vec![];
    forms.push(("k".into(), rule(&[("A".into(), format!("{{f: {}}}", yl))], "A"), 0, 0));
    forms.push((
        "all(k)".into(),
        rule(&[("A".into(), format!("{{\"all(f)\": {}}}", yl))], "A"),
        1,
        0,
    ));
    let seq = format!(
        "[{}]",
        texts.iter().map(|t| format!("{{f: {}}}", t)).collect::<Vec<_>>().join(", ")
    );
    forms.push(("all(X)".into(), rule(&[("X".into(), seq.clone())], "all(X)"), 1, 0));
    forms.push(("X".into(), rule(&[("X".into(), seq.clone())], "X"), 0, 0));
    for n in 0..=k + 1 {
        forms.push((
            format!("of(k,{})", if n == 0 { "0".into() } else if n > k { "len+1".to_string() } else { "n".to_string() }),
            rule(&[("A".into(), format!("{{\"of(f, {})\": {}}}", n, yl))], "A"),
            2,
            n,
        ));
        forms.push((
            format!("of(X,{})", if n == 0 { "0".into() } else if n > k { "len+1".to_string() } else { "n".to_string() }),
            rule(&[("X".into(), seq.clone())], &format!("of(X, {})", n)),
            2,
            n,
        ));
    }
    for (label, yaml, kind, n) in forms {
        let r = match eng::load(&yaml) {
            Ok(r) => r,
            Err(_) => {
                st.count("quantified_forms_rejected_by_loader", 1);
                continue;
            }
        };
        let rr = refint::parse_rule(&yaml);
        let mut t = false;
        let mut f = false;
        // the count must survive the optimiser as well (key-level lists are re-batched by
        // shake and rewrite)
        for sw in [eng::SW_DEFAULT, 0b0100, 0b0010] {
            // quantifiers over identifiers are only compared with coalesce on: without it the
            // optimiser merges the identifier's entries on their own (recorded C01 finding)
            if label.contains('X') && sw & 1 == 0 {
                continue;
            }
            if let Ok((o, _)) = eng::optimise_with(&r, sw, &[]) {
                for (i, d) in ctx.docs.iter().enumerate() {
                    let a = eng::matches(&r, d);
                    let b = eng::matches(&o, d);
                    st.transitions += 1;
                    st.evaluations += 1;
                    if a != b {
                        let count = singles.iter().filter(|v| v[i]).count();
                        st.push_violation(Violation {
                            signature: format!("{}:{}x{}:count-changes-after-optimise({})", label, cname, k, eng::sw_name(sw)),
                            witness: format!(
                                "{} as loaded {:?}, after optimise({}) {:?} ; members true = {}/{} ; rule {} doc {}",
                                label, a, eng::sw_name(sw), b, count, k, one_line(&yaml), d.show()
                            ),
                            replay: json!({"kind":"optimise","rule_yaml":yaml,"sw_bits":sw,"hash_order_choices":[],"document":crate::report::mobj_to_json(d)}),
                        });
                    }
                }
            }
        }
        for (i, d) in ctx.docs.iter().enumerate() {
            let got3 = eng::val3(&r, d).unwrap_or(2);
            let got = got3 == 1;
            st.states += 1;
            st.transitions += 2;
            st.traces += 1;
            st.evaluations += 1;
            let count = singles.iter().filter(|v| v[i]).count();
            // the written-out form, by the engine itself
            let want_written = match kind {
                0 => eng::matches(&w_or, d).unwrap_or(false),
                1 => eng::matches(&w_and, d).unwrap_or(false),
                _ => {
                    if n == 0 {
                        eng::matches(&w_none, d).unwrap_or(false)
                    } else {
                        count >= n
                    }
                }
            };
            // and by counting the engine's single-member verdicts
            let want_count = match kind {
                0 => count >= 1,
                1 => count == k,
                _ => {
                    if n == 0 {
                        // none true; whether an all-missing list counts is left to the written form
                        want_written
                    } else {
                        count >= n
                    }
                }
            };
            if got {
                t = true
            } else {
                f = true
            }
            let mut bad = got != want_written || got != want_count;
            let mut refnote = String::new();
            if let Some(rr) = &rr {
                let exp = refint::eval_rule(rr, d);
                if bit(got3) & exp == 0 {
                    bad = true;
                    refnote = format!(" reference {}", refint::set_name(exp));
                }
            }
            if bad {
                st.push_violation(Violation {
                    signature: format!(
                        "{}:{}x{}:{}",
                        label,
                        cname,
                        k,
                        if got { "matches-but-written-out-form-does-not" } else { "written-out-form-matches-but-quantified-does-not" }
                    ),
                    witness: format!(
                        "{} = {} ; written out = {} ; members true = {}/{}{} ; rule {} doc {}",
                        label,
                        eng::v3name(got3),
                        want_written,
                        count,
                        k,
                        refnote,
                        one_line(&yaml),
                        d.show()
                    ),
                    replay: json!({"kind":"reference","rule_yaml":yaml,"document":crate::report::mobj_to_json(d),"written_out_expected":want_written}),
                });
            }
        }
        if t && f {
            st.nontrivial += 1;
        }
    }
    st
}

pub fn run(tier: Tier) -> i32 {
    let mut rep = Report::new("C08", tier);
    let th = tier.thorough();
    let mem = members();
    let docs = docs();
    // single-member verdicts
    let mut single = HashMap::new();
    for (t, _) in &mem {
        let y = rule(&[("M".into(), format!("{{f: {}}}", t))], "M");
        let r = match eng::load(&y) {
            Ok(r) => r,
            Err(e) => {
                eprintln!("machinery error: single member rule does not load: {} {:?}", y, e);
                return 2;
            }
        };
        let v: Vec<bool> = docs.iter().map(|d| eng::matches(&r, d).unwrap_or(false)).collect();
        single.insert(t.to_string(), v);
    }
    let ctx = Ctx { docs, single };
    // lists: within each class all ordered lists up to the length bound; mixed pairs/triples
    let mut lists: Vec<Vec<(&'static str, Class)>> = vec![];
    let maxlen = if th { 4 } else { 3 };
    for class in [Class::Str, Class::Num, Class::Bool, Class::Map] {
        let ms: Vec<(&'static str, Class)> = mem.iter().filter(|m| m.1 == class).cloned().collect();
        let mut cur: Vec<Vec<(&'static str, Class)>> = vec![vec![]];
        for len in 1..=maxlen {
            let mut next = vec![];
            for c in &cur {
                for m in &ms {
                    // quick: strings of length 3 only in non-decreasing index order + a stride
                    let mut n = c.clone();
                    n.push(*m);
                    next.push(n);
                }
            }
            let keep: Vec<Vec<(&'static str, Class)>> = if class == Class::Str && len >= 3 && !th {
                next.iter().step_by(3).cloned().collect()
            } else if class == Class::Str && len >= 4 {
                next.iter().step_by(7).cloned().collect()
            } else {
                next.clone()
            };
            lists.extend(keep);
            cur = next;
        }
    }
    // five members over a 5-subset of the strings (thorough)
    if th {
        let sub: Vec<(&'static str, Class)> = mem.iter().filter(|m| m.1 == Class::Str).step_by(2).cloned().collect();
        let n = sub.len();
        let mut idx = vec![0usize; 5];
        'o: loop {
            lists.push(idx.iter().map(|i| sub[*i]).collect());
            let mut j = 0;
            loop {
                if j == 5 {
                    break 'o;
                }
                idx[j] += 1;
                if idx[j] < n {
                    break;
                }
                idx[j] = 0;
                j += 1;
            }
        }
    }
    // mixed classes (only meaningful for the plain list; quantified keys are rejected)
    for (i, a) in mem.iter().enumerate() {
        for b in mem.iter().skip(i + 1) {
            if a.1 != b.1 {
                lists.push(vec![*a, *b]);
                lists.push(vec![*b, *a]);
            }
        }
    }
    rep.stats.count("member_lists", lists.len() as u64);
    let parts: Vec<Stats> = lists.par_iter().map(|l| check_list(l, &ctx)).collect();
    for p in parts {
        rep.stats.merge(p);
    }
    // lists around the solver's 64-needle boundary (bitmap vs set counting)
    let mut wide = Stats::default();
    for n in [1usize, 2, 62, 63, 64, 65, 66, 70, 128, 129] {
        for ins in [false, true] {
            let lst = crate::gen::wide_list(n, ins).yaml();
            let ds = crate::gen::wide_docs(n.max(3));
            let mut thresholds: Vec<usize> = vec![0, 1, 2, n / 2, n.saturating_sub(1), n, n + 1];
            thresholds.sort();
            thresholds.dedup();
            let mut forms: Vec<(String, String, Option<usize>)> = vec![
                ("k".into(), rule(&[("A".into(), format!("{{f: {}}}", lst))], "A"), None),
                ("all(k)".into(), rule(&[("A".into(), format!("{{\"all(f)\": {}}}", lst))], "A"), Some(n)),
            ];
            for t in &thresholds {
                forms.push((format!("of(k,{})", t), rule(&[("A".into(), format!("{{\"of(f, {})\": {}}}", t, lst))], "A"), Some(*t)));
            }
            for (label, yaml, thr) in forms {
                let r = match eng::load(&yaml) {
                    Ok(r) => r,
                    Err(_) => continue,
                };
                let opt = eng::optimise_with(&r, eng::SW_DEFAULT, &[]).ok().map(|x| x.0);
                for d in &ds {
                    // members true: needle i is contained in the document string
                    let text = match d.getm("f") {
                        Some(MVal::Str(t)) => Some(t.clone()),
                        _ => None,
                    };
                    let count = match &text {
                        Some(t) => (0..n).filter(|i| t.contains(&format!("k{:02}x", i))).count(),
                        None => 0,
                    };
                    let want = match (label.as_str(), thr) {
                        ("k", _) => count >= 1,
                        ("all(k)", _) => text.is_some() && count == n,
                        (_, Some(0)) => text.is_some() && count == 0,
                        (_, Some(t)) => count >= t,
                        _ => false,
                    };
                    for (vn, rr) in [("as-loaded", Some(&r)), ("optimised", opt.as_ref())] {
                        if let Some(rr) = rr {
                            let got = eng::matches(rr, d);
                            wide.states += 1;
                            wide.transitions += 1;
                            wide.traces += 1;
                            wide.evaluations += 1;
                            if got != Ok(want) {
                                wide.push_violation(Violation {
                                    signature: format!("wide-list:{}:{}", if label.starts_with("of") { "of(k,n)" } else { label.as_str() }, if n >= 64 { ">=64-members" } else { "<64-members" }),
                                    witness: format!("{} over {} {}needles ({}): engine {:?}, {} members are true, expected {} ; doc {}", label, n, if ins { "case-insensitive " } else { "" }, vn, got, count, want, d.show().chars().take(80).collect::<String>()),
                                    replay: json!({"kind":"reference","rule_yaml":yaml,"document":crate::report::mobj_to_json(d)}),
                                });
                            }
                        }
                    }
                }
            }
        }
    }
    rep.stats.merge(wide);
    rep.stats.count("documents", ctx.docs.len() as u64);
    rep.stats.sample(json!({"quantified":"of(f, 2): ['*a*', 'ia', '?b']","written_out":"count of true among M1: {f: '*a*'}, M2: {f: ia}, M3: {f: '?b'} >= 2","document":"{f: \"ab\"}"}));
    rep.stats.sample(json!({"quantified":"of(f, 0): [1, 2]","written_out":"not (M1 or M2)","document":"{f: 3}"}));
    rep.rule = "member lists of length 1..N within each member class (strings/regexes in every batching kind, numbers and comparisons, booleans, nested mappings) plus mixed-class pairs, under k, all(k), of(k,n) for n in 0..len+1, and as all(X)/of(X,n)/X over an identifier whose entries are one-member mappings; documents: every string of <=3 letters over {a,b,c,x}, numbers, booleans, null, objects, absent. Oracle: the same engine on the rule written out with one-member identifiers (M1 or .. / M1 and .. / not (M1 or ..) / count of true Mi >= n), the count of the engine's single-member verdicts, and the reference interpreter. non-trivial = the quantified rule is discriminating".into();
    rep.assumptions = vec!["key lists under all/of on array fields are not specified and not enumerated here".into()];
    rep.finish()
}
