#!/bin/bash
# re-evaluates every seed kept under /verif/seeded (needs the scratch worktrees under /tmp/wt)
for d in /verif/seeded/C*/; do
  name=$(basename $d); prop=${name%%-*}; suffix=${name##*-}
  case $suffix in a) wt=/tmp/wt/$prop; out=/tmp/wt-out/$prop;; b) wt=/tmp/wt/D${prop:1}; out=/tmp/wt-out/D${prop:1};; c) wt=/tmp/wt/E${prop:1}; out=/tmp/wt-out/E${prop:1};; d) wt=/tmp/wt/F${prop:1}; out=/tmp/wt-out/F${prop:1};; e) wt=/tmp/wt/G${prop:1}; out=/tmp/wt-out/G${prop:1};; f) wt=/tmp/wt/H${prop:1}; out=/tmp/wt-out/H${prop:1};; g) wt=/tmp/wt/I${prop:1}; out=/tmp/wt-out/I${prop:1};; h) wt=/tmp/wt/J${prop:1}; out=/tmp/wt-out/J${prop:1};; i) wt=/tmp/wt/K${prop:1}; out=/tmp/wt-out/K${prop:1};; j) wt=/tmp/wt/L${prop:1}; out=/tmp/wt-out/L${prop:1};; k) wt=/tmp/wt/M${prop:1}; out=/tmp/wt-out/M${prop:1};; l) wt=/tmp/wt/N${prop:1}; out=/tmp/wt-out/N${prop:1};; m) wt=/tmp/wt/O${prop:1}; out=/tmp/wt-out/O${prop:1};; *) wt=/tmp/wt/$name; out=/tmp/wt-out/$name;; esac
  [ -d $wt ] || [ "${SEED_CHECKS_ONLY:-0}" = "1" ] || { echo "$name: no worktree"; continue; }
  echo "$name: $(/verif/seedtest.sh $name $prop $wt $out 2>&1 | tail -1)"
done
